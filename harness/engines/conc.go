package engines

import (
	"bufio"
	"context"
	"fmt"
	"os"
	"os/exec"
	"path/filepath"
	"regexp"
	"runtime"
	"sort"
	"strings"
	"sync"
	"sync/atomic"
	"time"

	"github.com/kercylan98/vivid"
	"github.com/kercylan98/vivid/internal/actor"
	"github.com/kercylan98/vivid/pkg/log"
)

// Engine conc (C10): the documented-concurrent API hammered from many goroutines while actors
// spawn, fail and terminate. Every scenario runs in a child process built with the race detector
// (bin/vh-race): a fatal runtime error (concurrent map writes, ...) or a race report is the
// violation, attributed to the scenario that produced it; the parent never dies. After each
// scenario the child checks the actor tree at quiescence. Monitor only — what is observed is a
// fact about goroutine interleavings in the Go runtime.
type concEngine struct{}

func init() { Register("conc", func() Engine { return &concEngine{} }) }

func (*concEngine) Name() string { return "conc" }

type stressMsg struct{ N int }
type concEvA struct{ N int }
type concEvB struct{ N int }

func concScenario(name string, iters int, seed uint64) string {
	ctx, cancel := context.WithCancel(context.Background())
	defer cancel()
	sys := actor.NewSystem(vivid.WithActorSystemContext(ctx), vivid.WithActorSystemLogger(log.NewSilentLogger()))
	if err := sys.Start(); err != nil {
		return "HARNESS: start: " + err.Error()
	}
	const G = 8
	var wg sync.WaitGroup
	par := func(f func(g int)) {
		for g := 0; g < G; g++ {
			wg.Add(1)
			go func(g int) { defer wg.Done(); f(g) }(g)
		}
	}
	var problems atomic.Value
	fail := func(s string) { problems.CompareAndSwap(nil, s) }
	echo := vivid.ActorFN(func(c vivid.ActorContext) {
		switch m := c.Message().(type) {
		case *stressMsg:
			if c.Sender() != nil {
				c.Reply(m)
			}
		}
	})
	var extra []vivid.ActorRef // helpers to be stopped when the scenario is over
	switch name {
	case "spawn-die":
		// root children: inserted by System.ActorOf callers, removed by the root's own goroutine on OnKilled
		par(func(g int) {
			for i := 0; i < iters; i++ {
				_, err := sys.ActorOf(vivid.ActorFN(func(c vivid.ActorContext) {
					if _, ok := c.Message().(*vivid.OnLaunch); ok {
						c.Kill(c.Ref(), false, "done")
					}
				}))
				if err != nil {
					fail("ActorOf: " + err.Error())
				}
			}
		})
	case "spawn-kill":
		par(func(g int) {
			for i := 0; i < iters; i++ {
				name := fmt.Sprintf("w-%d-%d", g, i)
				ref, err := sys.ActorOf(echo, vivid.WithActorName(name))
				if err != nil {
					fail("ActorOf: " + err.Error())
					continue
				}
				sys.Tell(ref, &stressMsg{i})
				if r, err := sys.FindActor(ref.GetAddress() + ref.GetPath()); err == nil && r != nil {
					sys.Tell(r, &stressMsg{i})
				}
				sys.Kill(ref, i%2 == 0, "bye")
				sys.Tell(ref, &stressMsg{i})
			}
		})
	case "spawn-fail":
		// children that panic on their first message: the root supervises while callers keep spawning
		par(func(g int) {
			for i := 0; i < iters; i++ {
				n := 0
				ref, err := sys.ActorOf(vivid.ActorFN(func(c vivid.ActorContext) {
					if _, ok := c.Message().(*stressMsg); ok {
						n++
						if n == 1 {
							panic("boom")
						}
						c.Kill(c.Ref(), false, "done")
					}
				}))
				if err != nil {
					fail("ActorOf: " + err.Error())
					continue
				}
				sys.Tell(ref, &stressMsg{1})
				sys.Tell(ref, &stressMsg{2})
			}
		})
	case "ask":
		var refs [G]atomic.Value
		for g := range refs {
			r, _ := sys.ActorOf(echo)
			refs[g].Store(r)
		}
		par(func(g int) {
			for i := 0; i < iters; i++ {
				target := refs[(g+i)%G].Load().(vivid.ActorRef)
				f := sys.Ask(target, &stressMsg{i}, 30*time.Millisecond)
				var w sync.WaitGroup
				for k := 0; k < 3; k++ {
					w.Add(1)
					go func(k int) {
						defer w.Done()
						switch k {
						case 0:
							f.Result()
						case 1:
							f.Wait()
						case 2:
							if i%5 == 0 {
								f.Close(fmt.Errorf("cancelled"))
							}
						}
					}(k)
				}
				w.Wait()
				if i%17 == 0 {
					// the target dies and is replaced while others are asking it
					sys.Kill(target, true, "churn")
					if r, err := sys.ActorOf(echo); err == nil {
						refs[(g+i)%G].Store(r)
					}
				}
			}
		})
	case "es":
		type evA = concEvA
		type evB = concEvB
		es := sys.EventStream()
		par(func(g int) {
			for i := 0; i < iters; i++ {
				ref, err := sys.ActorOf(vivid.ActorFN(func(c vivid.ActorContext) {
					switch c.Message().(type) {
					case *vivid.OnLaunch:
						c.EventStream().Subscribe(c, evA{})
						c.EventStream().Subscribe(c, evB{})
					case evA:
						c.EventStream().Unsubscribe(c, evA{})
					case evB:
						c.Kill(c.Ref(), false, "done")
					}
				}))
				if err != nil {
					fail("ActorOf: " + err.Error())
					continue
				}
				es.Publish(sys, evA{i})
				es.Subscribe(sys, evA{})
				es.Publish(sys, evB{i})
				es.Unsubscribe(sys, evA{})
				if i%3 == 0 {
					es.UnsubscribeAll(sys)
				}
				_ = ref
			}
		})
	case "ref":
		// one ActorRef value shared by every goroutine while its target dies and is re-created under the same name
		var cur atomic.Value
		mk := func() {
			if r, err := sys.ActorOf(echo, vivid.WithActorName("shared")); err == nil {
				cur.Store(r)
			}
		}
		mk()
		par(func(g int) {
			for i := 0; i < iters; i++ {
				r := cur.Load().(vivid.ActorRef)
				sys.Tell(r, &stressMsg{i})
				_ = r.GetPath() + r.GetAddress() + r.String()
				_ = r.Equals(r)
				if g == 0 && i%10 == 0 {
					sys.Kill(r, true, "churn")
					mk()
				}
				if g == 1 && i%7 == 0 {
					sys.Ask(r, &stressMsg{i}, 50*time.Millisecond).Result()
				}
			}
		})
	case "respawn":
		// a named top-level actor is killed and re-created under the same name as soon as the name is free:
		// the caller's ActorOf (insert into the root's child table) races the root's own handling of the
		// old instance's OnKilled (compare-and-remove from the same table)
		par(func(g int) {
			name := fmt.Sprintf("r-%d", g)
			ref, err := sys.ActorOf(echo, vivid.WithActorName(name))
			if err != nil {
				fail("ActorOf: " + err.Error())
				return
			}
			for i := 0; i < iters; i++ {
				// the current holder was returned by ActorOf and has not been killed yet: its parent must list it
				// (by now the root has usually handled the previous holder's OnKilled — the racing step)
				if i%4 == 3 {
					time.Sleep(200 * time.Microsecond)
				}
				listed := false
				for _, ch := range sys.Context.VerifState().Children {
					if ch == ref.GetPath() {
						listed = true
					}
				}
				if !listed {
					fail(fmt.Sprintf("TREE-CORRUPT: %s was created by ActorOf and never killed, yet the root's child table does not list it (removed by the termination notice of its dead namesake)", ref.GetPath()))
					return
				}
				sys.Kill(ref, i%2 == 0, "churn")
				ok := false
				for try := 0; try < 2000000 && !ok; try++ {
					if r, err := sys.ActorOf(echo, vivid.WithActorName(name)); err == nil {
						ref, ok = r, true
					} else {
						runtime.Gosched()
					}
				}
				if !ok {
					fail("the name " + name + " never became free again after its holder was killed")
					return
				}
			}
		})
	case "ask-die":
		// actors die with asks outstanding: the kill path closes the dying actor's futures while replies
		// (the replier's goroutine) and timeouts (timer goroutines) complete and unregister the same futures
		hole, _ := sys.ActorOf(vivid.ActorFN(func(c vivid.ActorContext) {}))
		sink, _ := sys.ActorOf(echo)
		extra = append(extra, hole, sink)
		par(func(g int) {
			for i := 0; i < iters; i++ {
				ref, err := sys.ActorOf(vivid.ActorFN(func(c vivid.ActorContext) {
					if _, ok := c.Message().(*stressMsg); ok {
						for k := 0; k < 8; k++ {
							c.Ask(hole, &stressMsg{k}, time.Duration(200+100*k)*time.Microsecond)
							c.Ask(sink, &stressMsg{k}, 20*time.Millisecond)
						}
						c.Kill(c.Ref(), false, "done")
					}
				}))
				if err != nil {
					fail("ActorOf: " + err.Error())
					continue
				}
				sys.Tell(ref, &stressMsg{i})
			}
		})
	default:
		return "HARNESS: unknown scenario " + name
	}
	wg.Wait()
	for _, r := range extra {
		sys.Kill(r, false, "scenario over")
	}
	if name == "es" {
		// late subscribers missed the publications that end them: publish until none is left
		for i := 0; i < 50; i++ {
			sys.EventStream().Publish(sys, concEvB{i})
			time.Sleep(5 * time.Millisecond)
			if paths, _ := sys.VerifRegistered(); len(paths) <= builtinActors(sys) {
				break
			}
		}
	}
	if p := problems.Load(); p != nil {
		return "API: " + p.(string)
	}
	// quiescence, then tree consistency: parent/children and registry agree; nothing half-dead remains
	// (the clock only runs while nothing changes, and it is read after the tree has been inspected: on a race build
	// with tens of thousands of registered actors one inspection takes seconds, and a system that is still draining
	// its backlog shows transient states — e.g. marked killed, not yet deregistered — that are no problem at all.
	// A problem is reported when the registry has not changed over two inspections at least 5 s apart; 90 s overall)
	hard := time.Now().Add(90 * time.Second)
	var last string
	prevN := -1
	var quietSince time.Time
	for {
		paths, _ := sys.VerifRegistered()
		last = treeProblem(sys)
		now := time.Now()
		if len(paths) != prevN {
			prevN = len(paths)
			quietSince = now
		}
		if last == "" && name != "spawn-die" && name != "spawn-fail" && name != "es" && name != "ask-die" {
			break
		}
		if last == "" {
			// these scenarios end with every spawned actor dead: wait for that
			if len(paths) <= builtinActors(sys) {
				break
			}
			last = fmt.Sprintf("LEAK: %d actors still registered although every spawned actor asked to terminate", len(paths)-builtinActors(sys))
		}
		if now.Sub(quietSince) > 5*time.Second || now.After(hard) {
			break
		}
		time.Sleep(20 * time.Millisecond)
	}
	if last != "" {
		if os.Getenv("VERIF_CONC_DUMP") != "" {
			buf := make([]byte, 64<<20)
			n := runtime.Stack(buf, true)
			os.WriteFile(os.Getenv("VERIF_CONC_DUMP"), buf[:n], 0o644)
		}
		return "TREE: " + name + ": " + last
	}
	done := make(chan error, 1)
	tStop := time.Now()
	go func() { done <- sys.Stop(30 * time.Second) }()
	select {
	case err := <-done:
		if os.Getenv("VERIF_CONC_DUMP") != "" {
			fmt.Fprintf(os.Stderr, "stop took %v err=%v\n", time.Since(tStop), err)
		}
		if err != nil {
			return "TREE: " + name + ": Stop failed after the stress (every actor of the scenario had terminated): " + err.Error()
		}
	case <-time.After(40 * time.Second):
		return "TREE: " + name + ": Stop did not return after the stress"
	}
	return ""
}

var builtinCount int32 = -1

func builtinActors(sys *actor.System) int {
	if n := atomic.LoadInt32(&builtinCount); n >= 0 {
		return int(n)
	}
	ctx, cancel := context.WithCancel(context.Background())
	defer cancel()
	s := actor.NewSystem(vivid.WithActorSystemContext(ctx), vivid.WithActorSystemLogger(log.NewSilentLogger()))
	if s.Start() != nil {
		return 0
	}
	time.Sleep(30 * time.Millisecond)
	p, _ := s.VerifRegistered()
	go s.Stop(time.Second)
	atomic.StoreInt32(&builtinCount, int32(len(p)))
	return len(p)
}

// treeProblem: every registered context is listed by its registered parent, every listed child is
// registered, nobody is registered in state killed.
func treeProblem(sys *actor.System) string {
	paths, _ := sys.VerifRegistered()
	reg := map[string]bool{}
	for _, p := range paths {
		reg[p] = true
	}
	// the root is not in the registry: its child table is inspected here
	if sys.Context != nil {
		for _, ch := range sys.Context.VerifState().Children {
			if !reg[ch] {
				return fmt.Sprintf("the root lists child %s, which is not registered (a terminated actor left in its parent's child table: the parent can never finish stopping)", ch)
			}
		}
	}
	for _, p := range paths {
		c := sys.VerifLookup(p)
		if c == nil {
			continue
		}
		st := c.VerifState()
		if st.State == 2 {
			return fmt.Sprintf("%s is registered but terminated (zombie=%v restarting=%v children=%v)", p, st.Zombie, st.Restarting, st.Children)
		}
		for _, ch := range st.Children {
			if !reg[ch] {
				return fmt.Sprintf("%s lists child %s, which is not registered", p, ch)
			}
		}
		if p != "/" {
			parent := p[:strings.LastIndex(p, "/")]
			if parent == "" {
				parent = "/"
			}
			pc := sys.VerifLookup(parent)
			if parent == "/" {
				pc = sys.Context // the root is not in the registry
			}
			if pc != nil {
				found := false
				for _, ch := range pc.VerifState().Children {
					if ch == p {
						found = true
					}
				}
				if !found && st.State == 0 {
					return fmt.Sprintf("%s is registered and running but its parent %s does not list it", p, parent)
				}
			}
		}
	}
	return ""
}

var raceFrame = regexp.MustCompile(`^\s+(github\.com/kercylan98/vivid/\S+)\(`)

func summariseRace(log string) []string {
	var out []string
	for _, blk := range strings.Split(log, "==================") {
		if !strings.Contains(blk, "WARNING: DATA RACE") {
			continue
		}
		var frames []string
		sc := bufio.NewScanner(strings.NewReader(blk))
		section := ""
		perSection := map[string]bool{}
		for sc.Scan() {
			l := sc.Text()
			if !strings.HasPrefix(l, " ") && strings.TrimSpace(l) != "" {
				section = strings.SplitN(strings.TrimSpace(l), " at ", 2)[0]
				section = strings.SplitN(section, " by ", 2)[0]
				continue
			}
			if m := raceFrame.FindStringSubmatch(l); m != nil && !strings.Contains(m[1], "verifharness") && !perSection[section] {
				if strings.HasPrefix(section, "Goroutine") {
					continue
				}
				perSection[section] = true
				frames = append(frames, section+" in "+strings.TrimPrefix(m[1], "github.com/kercylan98/vivid/"))
			}
		}
		if len(frames) > 0 {
			out = append(out, strings.Join(frames, " / "))
		}
	}
	sort.Strings(out)
	var uniq []string
	for i, s := range out {
		if i == 0 || s != out[i-1] {
			uniq = append(uniq, s)
		}
	}
	return uniq
}

func (e *concEngine) Exec(line string) (string, string) {
	tk := strings.Fields(line)
	if len(tk) != 3 {
		return "bad-op", ""
	}
	var iters int
	fmt.Sscan(tk[2], &iters)
	switch tk[0] {
	case "scenario":
		// in-process (used by the race-built child and by -replay)
		return "-", concScenario(tk[1], iters, 1)
	case "stress":
		self, _ := os.Executable()
		bin := filepath.Join(filepath.Dir(self), "vh-race")
		if _, err := os.Stat(bin); err != nil {
			return "-", "HARNESS: " + bin + " not built"
		}
		dir, _ := os.MkdirTemp(filepath.Dir(self), "conc-")
		defer os.RemoveAll(dir)
		ops := filepath.Join(dir, "ops.txt")
		os.WriteFile(ops, []byte(fmt.Sprintf("scenario %s %d\n", tk[1], iters)), 0o644)
		cmd := exec.Command(bin, "conc", "-replay", ops)
		cmd.Env = append(os.Environ(), "GORACE=halt_on_error=0 exitcode=0 log_path="+filepath.Join(dir, "race"), "GOMAXPROCS=16")
		done := make(chan struct{})
		var out []byte
		var err error
		go func() { out, err = cmd.CombinedOutput(); close(done) }()
		select {
		case <-done:
		case <-time.After(300 * time.Second):
			cmd.Process.Kill()
			<-done
			return "-", fmt.Sprintf("HANG: scenario %s did not finish in 300 s", tk[1])
		}
		var viol []string
		if err != nil {
			// the child died: fatal error / panic
			first := ""
			var frames []string
			for _, l := range strings.Split(string(out), "\n") {
				if first == "" && (strings.HasPrefix(l, "fatal error:") || strings.HasPrefix(l, "panic:")) {
					first = l
				}
				if strings.HasPrefix(l, "github.com/kercylan98/vivid/internal") && len(frames) < 3 {
					frames = append(frames, strings.SplitN(strings.TrimPrefix(l, "github.com/kercylan98/vivid/"), "(0x", 2)[0])
				}
			}
			viol = append(viol, fmt.Sprintf("CRASH: scenario %s killed the process: %s [%s]", tk[1], first, strings.Join(frames, " <- ")))
		}
		for _, l := range strings.Split(string(out), "\n") {
			if strings.HasPrefix(l, "!! MONITOR: ") {
				viol = append(viol, strings.TrimPrefix(l, "!! MONITOR: "))
			}
		}
		files, _ := filepath.Glob(filepath.Join(dir, "race*"))
		for _, f := range files {
			b, _ := os.ReadFile(f)
			for _, r := range summariseRace(string(b)) {
				viol = append(viol, fmt.Sprintf("RACE: scenario %s: %s", tk[1], r))
			}
		}
		if len(viol) > 6 {
			viol = viol[:6]
		}
		return "-", strings.Join(viol, " || ")
	}
	return "bad-op", ""
}

func (e *concEngine) Generate(c *Ctx) {
	iters := 300
	if c.Thorough() {
		iters = 3000
	}
	for _, sc := range []string{"spawn-die", "spawn-kill", "spawn-fail", "ask", "es", "ref", "respawn", "ask-die"} {
		c.Case(fmt.Sprintf("stress %s %d", sc, iters))
		c.R.Nontrivial()
		c.R.Hit("scenario:" + sc)
	}
}
