package engines

import (
	"encoding/hex"
	"errors"
	"fmt"
	"os"
	"os/exec"
	"reflect"
	"runtime"
	"runtime/debug"
	"sort"
	"strconv"
	"strings"
	"syscall"
	"time"

	"github.com/kercylan98/vivid"
	"github.com/kercylan98/vivid/internal/cluster"
	"github.com/kercylan98/vivid/internal/mailbox"
	"github.com/kercylan98/vivid/internal/messages"
	"github.com/kercylan98/vivid/internal/remoting/serialize"

	"github.com/kercylan98/vivid/internal/actor" // also registers SchedulerMessage
)

// Engine codec: the real Writer.WriteMessage / Reader.ReadMessage / envelope codec on flat token
// values (M3, C12/C13).
type codecEngine struct {
	memCap string
}

func init() { Register("codec", func() Engine { return &codecEngine{memCap: "-"} }) }

func (*codecEngine) Name() string { return "codec" }

// names that have a schema in the Lean model (lean/Vivid/Model/Messages.lean schemaOf)
var codecSchemaNames = map[string]bool{
	"NoneArgsCommandMessage": true, "PingMessage": true, "PongMessage": true, "Pong": true,
	"WatchMessage": true, "UnwatchMessage": true, "OnLaunch": true, "clusterGossipTick": true, "clusterGossipCrossDCTick": true,
	"clusterFailureDetectionTick": true, "clusterGetViewRequest": true, "clusterLeaveRequest": true, "clusterLeaveAck": true,
	"clusterExitingReady": true, "clusterJoinRequest": true, "clusterJoinResponse": true, "clusterGossip": true,
	"clusterGetViewResponse": true, "clusterLeaveBroadcastRound": true, "clusterJoinRetryTick": true,
	"clusterForceMemberDown": true, "clusterTriggerViewBroadcast": true, "Error": true,
	"OnKill": true, "OnKilled": true,
}

// refOnWire: names whose payload carries an ActorRef as (address, path); the decoder validates
// them through actor.NewRef, which the schema model does not: no single-byte corruptions for these.
var refOnWire = map[string]bool{"OnKill": true, "OnKilled": true}

func refFromTok(r *tokR) vivid.ActorRef {
	a, p := r.s(), r.s()
	if a == "" && p == "" {
		return nil
	}
	ref, err := actor.NewRef(a, p)
	if err != nil {
		r.bad = true
		return nil
	}
	return ref
}

func refToTok(w *tokW, ref vivid.ActorRef) {
	if ref == nil {
		w.s("")
		w.s("")
		return
	}
	w.s(ref.GetAddress())
	w.s(ref.GetPath())
}

type stubCodec struct{}

var errOutside = errors.New("outside message (no user codec in the harness)")

func (stubCodec) Encode(message any) ([]byte, error) { return nil, errOutside }
func (stubCodec) Decode(data []byte) (any, error)    { return nil, errOutside }

// ---- token reader / writer

type tokR struct {
	ts  []string
	i   int
	bad bool
}

func (r *tokR) next() string {
	if r.i >= len(r.ts) {
		r.bad = true
		return ""
	}
	r.i++
	return r.ts[r.i-1]
}
func (r *tokR) u() uint64 {
	n, err := strconv.ParseUint(r.next(), 10, 64)
	if err != nil {
		r.bad = true
	}
	return n
}
func (r *tokR) z() int64 {
	n, err := strconv.ParseInt(r.next(), 10, 64)
	if err != nil {
		r.bad = true
	}
	return n
}
func (r *tokR) b() bool {
	switch r.next() {
	case "T":
		return true
	case "F":
		return false
	}
	r.bad = true
	return false
}
func (r *tokR) s() string {
	t := r.next()
	if !strings.HasPrefix(t, "x") {
		r.bad = true
		return ""
	}
	d, err := hex.DecodeString(t[1:])
	if err != nil {
		r.bad = true
	}
	return string(d)
}
func (r *tokR) count() int {
	t := r.next()
	if !strings.HasPrefix(t, "#") {
		r.bad = true
		return 0
	}
	n, err := strconv.Atoi(t[1:])
	if err != nil || n > 1<<20 {
		r.bad = true
		return 0
	}
	return n
}
func (r *tokR) opt() bool {
	switch r.next() {
	case "?1":
		return true
	case "?0":
		return false
	}
	r.bad = true
	return false
}

type tokW struct{ ts []string }

func (w *tokW) u(n uint64)  { w.ts = append(w.ts, strconv.FormatUint(n, 10)) }
func (w *tokW) z(n int64)   { w.ts = append(w.ts, strconv.FormatInt(n, 10)) }
func (w *tokW) s(s string)  { w.ts = append(w.ts, "x"+hex.EncodeToString([]byte(s))) }
func (w *tokW) count(n int) { w.ts = append(w.ts, "#"+strconv.Itoa(n)) }
func (w *tokW) b(x bool) {
	if x {
		w.ts = append(w.ts, "T")
	} else {
		w.ts = append(w.ts, "F")
	}
}
func (w *tokW) opt(x bool) {
	if x {
		w.ts = append(w.ts, "?1")
	} else {
		w.ts = append(w.ts, "?0")
	}
}

func readMapTok(r *tokR) map[string]string {
	n := r.count()
	if n == 0 {
		return nil
	}
	m := make(map[string]string, n)
	for i := 0; i < n && !r.bad; i++ {
		k := r.s()
		m[k] = r.s()
	}
	return m
}

func writeMapTok(w *tokW, m map[string]string) {
	ks := make([]string, 0, len(m))
	for k := range m {
		ks = append(ks, k)
	}
	sort.Strings(ks)
	w.count(len(ks))
	for _, k := range ks {
		w.s(k)
		w.s(m[k])
	}
}

func readNodeBodyTok(r *tokR) *cluster.NodeState {
	n := &cluster.NodeState{}
	n.ID, n.ClusterName, n.Address = r.s(), r.s(), r.s()
	n.Generation = int(r.z())
	n.Timestamp = r.z()
	n.SeqNo = r.u()
	n.Status = cluster.MemberStatus(r.z())
	n.Unreachable = r.b()
	n.LastSeen = r.z()
	n.LogicalClock = r.u()
	n.Metadata = readMapTok(r)
	n.Labels = readMapTok(r)
	n.Checksum = uint32(r.u())
	return n
}

func writeNodeBodyTok(w *tokW, n *cluster.NodeState) {
	w.s(n.ID)
	w.s(n.ClusterName)
	w.s(n.Address)
	w.z(int64(n.Generation))
	w.z(n.Timestamp)
	w.u(n.SeqNo)
	w.z(int64(n.Status))
	w.b(n.Unreachable)
	w.z(n.LastSeen)
	w.u(n.LogicalClock)
	writeMapTok(w, n.Metadata)
	writeMapTok(w, n.Labels)
	w.u(uint64(n.Checksum))
}

func readViewTok(r *tokR) *cluster.ClusterView {
	if !r.opt() {
		return nil
	}
	v := &cluster.ClusterView{}
	v.ViewID = r.s()
	v.Epoch, v.Timestamp = r.z(), r.z()
	n := r.count()
	v.Members = make(map[string]*cluster.NodeState, n)
	for i := 0; i < n && !r.bad; i++ {
		id := r.s()
		if r.opt() {
			v.Members[id] = readNodeBodyTok(r)
		} else {
			v.Members[id] = nil
		}
	}
	v.HealthyCount, v.UnhealthyCount, v.QuorumSize = int(r.z()), int(r.z()), int(r.z())
	k := r.count()
	vv := map[string]uint64{}
	for i := 0; i < k && !r.bad; i++ {
		nm := r.s()
		vv[nm] = r.u()
	}
	v.VersionVector = cluster.VerifVVFromMap(vv)
	v.ProtocolVersion = uint16(r.u())
	v.MaxVersionVectorEntries = int(r.z())
	return v
}

func writeViewTok(w *tokW, v *cluster.ClusterView) {
	if v == nil {
		w.opt(false)
		return
	}
	w.opt(true)
	w.s(v.ViewID)
	w.z(v.Epoch)
	w.z(v.Timestamp)
	ids := make([]string, 0, len(v.Members))
	for id, m := range v.Members {
		if m != nil {
			ids = append(ids, id)
		}
	}
	sort.Strings(ids)
	w.count(len(ids))
	for _, id := range ids {
		w.s(id)
		w.opt(true)
		writeNodeBodyTok(w, v.Members[id])
	}
	w.z(int64(v.HealthyCount))
	w.z(int64(v.UnhealthyCount))
	w.z(int64(v.QuorumSize))
	vv := cluster.VerifVVMap(v.VersionVector)
	ks := make([]string, 0, len(vv))
	for k := range vv {
		ks = append(ks, k)
	}
	sort.Strings(ks)
	w.count(len(ks))
	for _, k := range ks {
		w.s(k)
		w.u(vv[k])
	}
	w.u(uint64(v.ProtocolVersion))
	w.z(int64(v.MaxVersionVectorEntries))
}

// buildMessage turns tokens into the real message struct for a wire name.
func buildMessage(name string, r *tokR) any {
	switch name {
	case "NoneArgsCommandMessage":
		return &messages.NoneArgsCommandMessage{Command: messages.Command(r.u())}
	case "PingMessage":
		return &messages.PingMessage{Time: time.Unix(0, r.z())}
	case "PongMessage":
		return &messages.PongMessage{Ping: &messages.PingMessage{Time: time.Unix(0, r.z())}, RespondTime: time.Unix(0, r.z())}
	case "Pong":
		return &vivid.Pong{PingTime: time.Unix(0, r.z()), RespondTime: time.Unix(0, r.z())}
	case "WatchMessage":
		return &messages.WatchMessage{}
	case "UnwatchMessage":
		return &messages.UnwatchMessage{}
	case "OnLaunch":
		return &vivid.OnLaunch{}
	case "OnKill":
		return &vivid.OnKill{Killer: refFromTok(r), Reason: r.s(), Poison: r.b()}
	case "OnKilled":
		return &vivid.OnKilled{Ref: refFromTok(r)}
	case "clusterGossipTick":
		return &cluster.GossipTick{}
	case "clusterGossipCrossDCTick":
		return &cluster.GossipCrossDCTick{}
	case "clusterFailureDetectionTick":
		return &cluster.FailureDetectionTick{}
	case "clusterGetViewRequest":
		return &cluster.GetViewRequest{}
	case "clusterLeaveRequest":
		return &cluster.LeaveRequest{}
	case "clusterLeaveAck":
		return &cluster.LeaveAck{}
	case "clusterExitingReady":
		return &cluster.ExitingReady{}
	case "clusterJoinRequest":
		m := &cluster.JoinRequest{}
		if r.opt() {
			m.NodeState = readNodeBodyTok(r)
		}
		m.AuthToken = r.s()
		return m
	case "clusterJoinResponse":
		return &cluster.JoinResponse{View: readViewTok(r)}
	case "clusterGossip":
		return &cluster.GossipMessage{View: readViewTok(r)}
	case "clusterGetViewResponse":
		m := &cluster.GetViewResponse{View: readViewTok(r)}
		m.InQuorum = r.b()
		m.LeaderAddr = r.s()
		return m
	case "clusterLeaveBroadcastRound":
		return &cluster.LeaveBroadcastRound{Round: int(r.z())}
	case "clusterJoinRetryTick":
		return &cluster.JoinRetryTick{NextDelay: time.Duration(r.z())}
	case "clusterForceMemberDown":
		return &cluster.ForceMemberDown{NodeID: r.s(), AdminToken: r.s()}
	case "clusterTriggerViewBroadcast":
		return &cluster.TriggerViewBroadcast{AdminToken: r.s()}
	case "Error":
		// *vivid.Error has no public constructor for arbitrary (code, msg): obtain one through the reader
		code, msg := int32(r.z()), r.s()
		w := messages.NewWriter()
		w.WriteInt32(code).WriteString(msg)
		body := append([]byte(nil), w.Bytes()...)
		w2 := messages.NewWriter()
		w2.WriteBytesWithLength(body, 4).WriteString("Error")
		m, err := messages.NewReader(w2.Bytes()).ReadMessage(stubCodec{})
		if err != nil {
			r.bad = true
			return nil
		}
		return m
	}
	r.bad = true
	return nil
}

func messageTokens(name string, msg any, w *tokW) bool {
	switch m := msg.(type) {
	case *messages.NoneArgsCommandMessage:
		w.u(uint64(m.Command))
	case *messages.PingMessage:
		w.z(m.Time.UnixNano())
	case *messages.PongMessage:
		w.z(m.Ping.Time.UnixNano())
		w.z(m.RespondTime.UnixNano())
	case *vivid.Pong:
		w.z(m.PingTime.UnixNano())
		w.z(m.RespondTime.UnixNano())
	case *messages.WatchMessage, *messages.UnwatchMessage, *vivid.OnLaunch, *cluster.GossipTick, *cluster.GossipCrossDCTick,
		*cluster.FailureDetectionTick, *cluster.GetViewRequest, *cluster.LeaveRequest, *cluster.LeaveAck, *cluster.ExitingReady:
	case *cluster.JoinRequest:
		w.opt(m.NodeState != nil)
		if m.NodeState != nil {
			writeNodeBodyTok(w, m.NodeState)
		}
		w.s(m.AuthToken)
	case *cluster.JoinResponse:
		writeViewTok(w, m.View)
	case *cluster.GossipMessage:
		writeViewTok(w, m.View)
	case *cluster.GetViewResponse:
		writeViewTok(w, m.View)
		w.b(m.InQuorum)
		w.s(m.LeaderAddr)
	case *cluster.LeaveBroadcastRound:
		w.z(int64(m.Round))
	case *cluster.JoinRetryTick:
		w.z(int64(m.NextDelay))
	case *cluster.ForceMemberDown:
		w.s(m.NodeID)
		w.s(m.AdminToken)
	case *cluster.TriggerViewBroadcast:
		w.s(m.AdminToken)
	case *vivid.Error:
		w.z(int64(m.GetCode()))
		w.s(m.GetMessage())
	case *vivid.OnKill:
		refToTok(w, m.Killer)
		w.s(m.Reason)
		w.b(m.Poison)
	case *vivid.OnKilled:
		refToTok(w, m.Ref)
	default:
		return false
	}
	return true
}

type stubRef struct{ addr, path string }

func (r *stubRef) GetAddress() string       { return r.addr }
func (r *stubRef) GetPath() vivid.ActorPath { return r.path }
func (r *stubRef) Equals(o vivid.ActorRef) bool {
	return o != nil && o.GetAddress() == r.addr && o.GetPath() == r.path
}
func (r *stubRef) Clone() vivid.ActorRef        { c := *r; return &c }
func (r *stubRef) ToActorRefs() vivid.ActorRefs { return vivid.ActorRefs{r} }
func (r *stubRef) String() string               { return r.addr + r.path }

func peekName(data []byte) (string, bool) {
	r := messages.NewReader(data)
	var body []byte
	var name string
	if err := r.ReadInto(&body, &name); err != nil {
		return "", false
	}
	return name, true
}

// Allocation budget of one decode: 64 bytes per input byte plus a constant for the codec's own caps
// (a 65536-entry map is pre-sized before its elements are read: ~5 MiB; at most one such
// pre-sizing can fail for lack of input per decode).
const codecAllocBudget = 16 << 20

func (e *codecEngine) Exec(line string) (obs string, viol string) {
	tk := strings.Fields(line)
	if len(tk) == 0 {
		return "bad-op", ""
	}
	defer func() {
		if r := recover(); r != nil {
			obs = "panic"
			viol = fmt.Sprintf("PANIC in %s: %v", tk[0], r)
		}
	}()
	switch tk[0] {
	case "cfg":
		if len(tk) > 1 {
			e.memCap = tk[1]
		}
		return "ok", ""
	case "enc":
		if len(tk) < 2 {
			return "bad-op", ""
		}
		if !codecSchemaNames[tk[1]] {
			return "no-schema", ""
		}
		r := &tokR{ts: tk[2:]}
		msg := buildMessage(tk[1], r)
		if r.bad || r.i != len(r.ts) {
			return "bad-op", ""
		}
		w := messages.NewWriter()
		if err := w.WriteMessage(msg, stubCodec{}); err != nil {
			return "err", ""
		}
		data := append([]byte(nil), w.Bytes()...)
		// property oracle: decoding what was just encoded yields an equal value and consumes everything
		rd := messages.NewReader(data)
		back, err := rd.ReadMessage(stubCodec{})
		if err != nil {
			viol = fmt.Sprintf("ROUND-TRIP: %s encodes but its encoding does not decode: %v", tk[1], err)
		} else {
			a, b := &tokW{}, &tokW{}
			messageTokens(tk[1], msg, a)
			messageTokens(tk[1], back, b)
			if strings.Join(a.ts, " ") != strings.Join(b.ts, " ") {
				viol = fmt.Sprintf("ROUND-TRIP: %s decodes to a different value: sent [%s] got [%s]", tk[1], strings.Join(a.ts, " "), strings.Join(b.ts, " "))
			} else if rd.RemainingSize() != 0 {
				viol = fmt.Sprintf("ROUND-TRIP: reader left %d bytes of %s unread", rd.RemainingSize(), tk[1])
			}
		}
		return "x" + hex.EncodeToString(data), viol
	case "dec":
		if len(tk) != 2 || !strings.HasPrefix(tk[1], "x") {
			return "bad-op", ""
		}
		data, err := hex.DecodeString(tk[1][1:])
		if err != nil {
			return "bad-op", ""
		}
		var ms0, ms1 runtime.MemStats
		runtime.ReadMemStats(&ms0)
		rd := messages.NewReader(data)
		msg, derr := rd.ReadMessage(stubCodec{})
		runtime.ReadMemStats(&ms1)
		if alloc := ms1.TotalAlloc - ms0.TotalAlloc; alloc > codecAllocBudget+64*uint64(len(data)) {
			viol = fmt.Sprintf("ALLOC: decoding %d bytes allocated %d bytes", len(data), alloc)
		}
		if derr != nil {
			if errors.Is(derr, errOutside) {
				if n, ok := peekName(data); ok {
					return "unknown x" + hex.EncodeToString([]byte(n)), viol
				}
			}
			return "err", viol
		}
		name, _ := peekName(data)
		if !codecSchemaNames[name] {
			return "unknown x" + hex.EncodeToString([]byte(name)), viol
		}
		w := &tokW{}
		if !messageTokens(name, msg, w) {
			return "unknown x" + hex.EncodeToString([]byte(name)), viol
		}
		return strings.Join(append(append([]string{"ok", name}, w.ts...), fmt.Sprintf("rest=%d", rd.RemainingSize())), " "), viol
	case "wnil", "wzero":
		// WriteMessage on a typed-nil pointer of a registered message type / on its zero value (every pointer
		// and interface field nil): an error or a value, never a panic (the deferred recover above reports it)
		if len(tk) != 2 {
			return "bad-op", ""
		}
		desc := messages.QueryMessageDescByName(tk[1])
		if desc == nil || desc.IsOutside() {
			return "bad-op", ""
		}
		inst := desc.Instance()
		var m any = inst
		if tk[0] == "wnil" {
			m = reflect.Zero(reflect.TypeOf(inst)).Interface()
		}
		var werr error
		var wbytes []byte
		func() {
			defer func() {
				if r := recover(); r != nil {
					obs = "panic"
					viol = fmt.Sprintf("PANIC: WriteMessage(%s %T) panics instead of returning an error: %v", map[string]string{"wnil": "nil pointer", "wzero": "zero value of"}[tk[0]], inst, r)
				}
			}()
			wr := messages.NewWriter()
			werr = wr.WriteMessage(m, stubCodec{})
			wbytes = append([]byte(nil), wr.Bytes()...)
		}()
		if obs == "panic" {
			return obs, viol
		}
		if tk[0] == "wnil" {
			if werr == nil {
				return "ok", ""
			}
			return "err", ""
		}
		// no error means a faithful encoding: what was written decodes again, completely
		if werr == nil {
			rd := messages.NewReader(wbytes)
			if _, derr := rd.ReadMessage(stubCodec{}); derr != nil || rd.RemainingSize() != 0 {
				viol = fmt.Sprintf("ENCODE-SILENT: WriteMessage(zero value of %T) returned no error, but the %d bytes it produced do not decode (%v, %d left): an unencodable value must be reported", inst, len(wbytes), derr, rd.RemainingSize())
			}
		}
		return "nopanic", viol
	case "rfl", "rflinto":
		if len(tk) < 3 {
			return "bad-op", ""
		}
		return e.execReflect(tk)
	case "write":
		// Writer.Write on a Go value of the named kind, in a child process: a stack overflow is a
		// fatal error in Go (not recoverable), so it has to be observed from outside
		if len(tk) != 2 {
			return "bad-op", ""
		}
		exe, _ := os.Executable()
		cmd := exec.Command(exe, "codec-write1", tk[1])
		cmd.Env = append(os.Environ(), "GOMAXPROCS=2")
		out, err := cmd.CombinedOutput()
		txt := string(out)
		switch {
		case strings.Contains(txt, "stack overflow") || strings.Contains(txt, "goroutine stack exceeds"):
			return "fatal", "FATAL: Writer.Write(" + tk[1] + ") overflows the stack (unbounded Write <-> writeReflect recursion) instead of returning an error"
		case strings.HasPrefix(txt, "RESULT "):
			r := strings.Fields(txt)[1]
			if r == "panic" {
				viol = "PANIC: Writer.Write(" + tk[1] + ") panics: " + strings.TrimSpace(txt)
			}
			return r, viol
		case err != nil:
			return "fatal", "FATAL: Writer.Write(" + tk[1] + ") killed the process: " + txt[:min(len(txt), 300)]
		}
		return "bad-op", ""
	case "encenv":
		if len(tk) < 2 || !codecSchemaNames[tk[1]] {
			return "no-schema", ""
		}
		bar := -1
		for i, t := range tk {
			if t == "|" {
				bar = i
			}
		}
		if bar < 0 {
			return "bad-op", ""
		}
		r := &tokR{ts: tk[2:bar]}
		msg := buildMessage(tk[1], r)
		t := &tokR{ts: tk[bar+1:]}
		sys := t.b()
		sa, sp, ra, rp := t.s(), t.s(), t.s(), t.s()
		if r.bad || t.bad || r.i != len(r.ts) || t.i != len(t.ts) {
			return "bad-op", ""
		}
		var sender, receiver vivid.ActorRef
		if sa != "" || sp != "" {
			sender = &stubRef{sa, sp}
		}
		if ra != "" || rp != "" {
			receiver = &stubRef{ra, rp}
		}
		env := mailbox.NewEnvelop(sys, sender, receiver, msg)
		data, err := serialize.EncodeEnvelopWithRemoting(stubCodec{}, env)
		if err != nil {
			return "err", ""
		}
		s2, a1, p1, a2, p2, back, derr := serialize.DecodeEnvelopWithRemoting(stubCodec{}, data)
		if derr != nil {
			viol = fmt.Sprintf("ROUND-TRIP: envelope of %s does not decode: %v", tk[1], derr)
		} else if s2 != sys || a1 != sa || p1 != sp || a2 != ra || p2 != rp {
			viol = fmt.Sprintf("ROUND-TRIP: envelope fields changed: system %v->%v sender %q%q->%q%q receiver %q%q->%q%q", sys, s2, sa, sp, a1, p1, ra, rp, a2, p2)
		} else {
			a, b := &tokW{}, &tokW{}
			messageTokens(tk[1], msg, a)
			messageTokens(tk[1], back, b)
			if strings.Join(a.ts, " ") != strings.Join(b.ts, " ") {
				viol = "ROUND-TRIP: enveloped " + tk[1] + " decodes to a different value"
			}
		}
		return "x" + hex.EncodeToString(data), viol
	case "decenv":
		if len(tk) != 2 || !strings.HasPrefix(tk[1], "x") {
			return "bad-op", ""
		}
		data, err := hex.DecodeString(tk[1][1:])
		if err != nil {
			return "bad-op", ""
		}
		var ms0, ms1 runtime.MemStats
		runtime.ReadMemStats(&ms0)
		sys, sa, sp, ra, rp, msg, derr := serialize.DecodeEnvelopWithRemoting(stubCodec{}, data)
		runtime.ReadMemStats(&ms1)
		if alloc := ms1.TotalAlloc - ms0.TotalAlloc; alloc > codecAllocBudget+64*uint64(len(data)) {
			viol = fmt.Sprintf("ALLOC: decoding a %d-byte envelope allocated %d bytes", len(data), alloc)
		}
		if derr != nil {
			if errors.Is(derr, errOutside) {
				if n, ok := peekName(data); ok {
					return "unknown x" + hex.EncodeToString([]byte(n)), viol
				}
			}
			return "err", viol
		}
		name, _ := peekName(data)
		if !codecSchemaNames[name] {
			return "unknown x" + hex.EncodeToString([]byte(name)), viol
		}
		w := &tokW{}
		if !messageTokens(name, msg, w) {
			return "unknown x" + hex.EncodeToString([]byte(name)), viol
		}
		w.ts = append(w.ts, "|")
		w.b(sys)
		w.s(sa)
		w.s(sp)
		w.s(ra)
		w.s(rp)
		return strings.Join(append([]string{"ok", name}, w.ts...), " "), viol
	}
	return "bad-op", ""
}

// ---------------------------------------------------------------- generation

func (e *codecEngine) Generate(c *Ctx) {
	// a decoder that allocates from a wire-supplied count can take the whole machine down: cap the
	// address space so that it dies alone, leaving pending.txt as the failing input
	var lim syscall.Rlimit
	if syscall.Getrlimit(syscall.RLIMIT_AS, &lim) == nil {
		lim.Cur = 6 << 30
		syscall.Setrlimit(syscall.RLIMIT_AS, &lim)
	}
	c.Guard = true
	var names []string
	for _, n := range messages.VerifRegisteredNames() {
		if !strings.HasPrefix(n, "verif") {
			names = append(names, n)
		}
	}
	sort.Strings(names)
	c.R.Extra["registered_names"] = names
	var unmodelled []string
	for _, n := range names {
		if !codecSchemaNames[n] {
			unmodelled = append(unmodelled, n)
		}
	}
	c.R.Extra["registered_without_schema"] = unmodelled
	memCap := probeMemCap()
	c.R.Extra["view_member_cap"] = memCap
	c.R.Hit("memcap:" + memCap)
	c.Case("cfg " + memCap + " " + strings.Join(names, " "))

	g := &codecGen{c: c}
	per := 150
	if c.Thorough() {
		per = 600 // x (every truncation and one corruption per byte of every encoding): ~1.3 M ops
	}
	var schemaNames []string
	for n := range codecSchemaNames {
		schemaNames = append(schemaNames, n)
	}
	sort.Strings(schemaNames)
	for _, name := range schemaNames {
		n := per
		if !strings.Contains(name, "View") && !strings.Contains(name, "Join") && !strings.Contains(name, "Gossip") {
			n = per / 3
		}
		for i := 0; i < n; i++ {
			toks := g.value(name)
			c.Case("cfg " + memCap + " " + strings.Join(names, " "))
			hexs := c.Do("enc " + name + " " + strings.Join(toks, " "))
			c.R.Hit("enc:" + name)
			if !strings.HasPrefix(hexs, "x") {
				c.R.Hit("enc-rejected")
				continue
			}
			c.R.Nontrivial()
			c.Do("dec " + hexs)
			// envelope with all sender/receiver combinations incl. absent ones
			tail := g.envTail()
			ehex := c.Do("encenv " + name + " " + strings.Join(toks, " ") + " | " + tail)
			if strings.HasPrefix(ehex, "x") {
				c.Do("decenv " + ehex)
			}
			// malformed stream: truncations and single-byte corruptions (exhaustive for short encodings)
			raw, _ := hex.DecodeString(hexs[1:])
			g.malformed(raw, "dec", !refOnWire[name])
			if i%4 == 0 && strings.HasPrefix(ehex, "x") {
				eraw, _ := hex.DecodeString(ehex[1:])
				g.malformed(eraw, "decenv", !refOnWire[name])
			}
		}
	}
	// random bytes and hostile length fields
	nrand := 2000
	if c.Thorough() {
		nrand = 200000
	}
	for i := 0; i < nrand; i++ {
		n := c.Rng.Intn(40)
		b := make([]byte, n)
		for j := range b {
			b[j] = byte(c.Rng.U64())
		}
		if c.Rng.Chance(1, 3) && n >= 4 {
			copy(b, []byte{0, 0, 0, byte(c.Rng.Intn(n))})
		}
		c.Case("cfg " + memCap + " " + strings.Join(names, " "))
		op := "dec"
		if c.Rng.Bool() {
			op = "decenv"
		}
		o := c.Do(op + " x" + hex.EncodeToString(b))
		c.R.Hit("random:" + strings.Fields(o)[0])
	}
	// Writer.Write on supported and unsupported Go kinds
	c.Case("cfg " + memCap + " " + strings.Join(names, " "))
	for _, k := range WriteKinds {
		o := c.Do("write " + k)
		c.R.Hit("write:" + o)
	}
	// nil pointers and nil fields of every registered message type
	c.Case("cfg " + memCap + " " + strings.Join(names, " "))
	for _, n := range names {
		o := c.Do("wnil " + n)
		c.R.Hit("wnil:" + o)
		o = c.Do("wzero " + n)
		c.R.Hit("wzero:" + o)
	}
	// the reflective reader on Go slices / structs (what a user's CustomMessageReader calls)
	e.reflectiveCases(c, g, "cfg "+memCap+" "+strings.Join(names, " "))
	// the messages without a schema: implementation-side round trip only
	e.unmodelledRoundTrips(c)
}

func probeMemCap() string {
	// a view announcing 70000 members and nothing else: the code as found allocates the map first
	w := messages.NewWriter()
	w.WriteUint32(1).WriteString("v").WriteInt64(0).WriteInt64(0).WriteUint32(70000)
	body := append([]byte(nil), w.Bytes()...)
	w2 := messages.NewWriter()
	w2.WriteBytesWithLength(body, 4).WriteString("clusterGossip")
	var ms0, ms1 runtime.MemStats
	runtime.GC()
	runtime.ReadMemStats(&ms0)
	_, _ = messages.NewReader(w2.Bytes()).ReadMessage(stubCodec{})
	runtime.ReadMemStats(&ms1)
	if ms1.TotalAlloc-ms0.TotalAlloc > 512<<10 {
		return "-"
	}
	return "65536"
}

type codecGen struct{ c *Ctx }

func (g *codecGen) str() string {
	r := g.c.Rng
	switch r.Intn(6) {
	case 0:
		return ""
	case 1:
		return "a"
	case 2:
		return "node-1"
	case 3:
		return "10.0.0.1:8080"
	case 4:
		return strings.Repeat("é", 1+r.Intn(3))
	}
	n := r.Intn(12)
	b := make([]byte, n)
	for i := range b {
		b[i] = byte(r.U64())
	}
	return string(b)
}
func (g *codecGen) tok(s string) string { return "x" + hex.EncodeToString([]byte(s)) }
func (g *codecGen) i64() string {
	r := g.c.Rng
	switch r.Intn(7) {
	case 0:
		return "0"
	case 1:
		return "-1"
	case 2:
		return "9223372036854775807"
	case 3:
		return "-9223372036854775808"
	case 4:
		return strconv.FormatInt(time.Now().UnixNano(), 10)
	}
	return strconv.FormatInt(int64(r.U64()), 10)
}
func (g *codecGen) i32() string {
	r := g.c.Rng
	switch r.Intn(6) {
	case 0:
		return "0"
	case 1:
		return "-1"
	case 2:
		return "2147483647"
	case 3:
		return "-2147483648"
	}
	return strconv.FormatInt(int64(int32(r.U64())), 10)
}
func (g *codecGen) u64() string {
	r := g.c.Rng
	switch r.Intn(5) {
	case 0:
		return "0"
	case 1:
		return "18446744073709551615"
	case 2:
		return "1"
	}
	return strconv.FormatUint(r.U64(), 10)
}
func (g *codecGen) boolean() string {
	if g.c.Rng.Bool() {
		return "T"
	}
	return "F"
}
func (g *codecGen) mapSS() []string {
	n := g.c.Rng.Intn(4)
	if g.c.Rng.Chance(1, 2) {
		n = 0
	}
	keys := map[string]bool{}
	var out []string
	var ks []string
	for len(ks) < n {
		k := g.str()
		if !keys[k] {
			keys[k] = true
			ks = append(ks, k)
		}
	}
	sort.Strings(ks)
	out = append(out, "#"+strconv.Itoa(n))
	for _, k := range ks {
		out = append(out, g.tok(k), g.tok(g.str()))
	}
	return out
}
func (g *codecGen) nodeBody(id string) []string {
	out := []string{g.tok(id), g.tok(g.str()), g.tok(g.str()), g.i32(), g.i64(), g.u64(), strconv.Itoa(g.c.Rng.Intn(9) - 1), g.boolean(), g.i64(), g.u64()}
	out = append(out, g.mapSS()...)
	out = append(out, g.mapSS()...)
	out = append(out, strconv.FormatUint(uint64(uint32(g.c.Rng.U64())), 10))
	return out
}
func (g *codecGen) view() []string {
	r := g.c.Rng
	if r.Chance(1, 8) {
		return []string{"?0"}
	}
	out := []string{"?1", g.tok(g.str()), g.i64(), g.i64()}
	n := r.Intn(4)
	ids := map[string]bool{}
	var idl []string
	for len(idl) < n {
		id := g.str()
		if !ids[id] {
			ids[id] = true
			idl = append(idl, id)
		}
	}
	sort.Strings(idl)
	out = append(out, "#"+strconv.Itoa(n))
	for _, id := range idl {
		out = append(out, g.tok(id), "?1")
		out = append(out, g.nodeBody(id)...)
	}
	out = append(out, g.i32(), g.i32(), g.i32())
	// version vector: valid names (1..256 bytes), counters up to 2^63-1
	k := r.Intn(4)
	vk := map[string]bool{}
	var vl []string
	for len(vl) < k {
		nm := g.str()
		if nm == "" {
			nm = "n"
		}
		if r.Chance(1, 20) {
			nm = strings.Repeat("n", 256)
		}
		if !vk[nm] {
			vk[nm] = true
			vl = append(vl, nm)
		}
	}
	sort.Strings(vl)
	out = append(out, "#"+strconv.Itoa(k))
	for _, nm := range vl {
		cnt := r.U64() >> 1
		if r.Chance(1, 4) {
			cnt = uint64(r.Intn(3))
		}
		if r.Chance(1, 10) {
			cnt = 1<<63 - 1
		}
		out = append(out, g.tok(nm), strconv.FormatUint(cnt, 10))
	}
	out = append(out, strconv.Itoa(r.Intn(65536)), g.i32())
	return out
}

func (g *codecGen) value(name string) []string {
	r := g.c.Rng
	switch name {
	case "NoneArgsCommandMessage":
		return []string{strconv.Itoa(r.Intn(256))}
	case "PingMessage", "clusterJoinRetryTick":
		return []string{g.i64()}
	case "PongMessage", "Pong":
		return []string{g.i64(), g.i64()}
	case "clusterJoinRequest":
		var out []string
		if r.Chance(1, 6) {
			out = []string{"?0"}
		} else {
			out = append([]string{"?1"}, g.nodeBody(g.str())...)
		}
		return append(out, g.tok(g.str()))
	case "clusterJoinResponse", "clusterGossip":
		return g.view()
	case "clusterGetViewResponse":
		return append(g.view(), g.boolean(), g.tok(g.str()))
	case "clusterLeaveBroadcastRound":
		return []string{g.i32()}
	case "clusterForceMemberDown":
		return []string{g.tok(g.str()), g.tok(g.str())}
	case "clusterTriggerViewBroadcast":
		return []string{g.tok(g.str())}
	case "Error":
		return []string{g.i32(), g.tok(g.str())}
	case "OnKill":
		a, p := g.validRef()
		return []string{g.tok(a), g.tok(p), g.tok(g.str()), g.boolean()}
	case "OnKilled":
		a, p := g.validRef()
		return []string{g.tok(a), g.tok(p)}
	}
	return nil
}

func (g *codecGen) validRef() (string, string) {
	r := g.c.Rng
	if r.Chance(1, 8) {
		return "", "" // nil reference
	}
	return []string{"localhost", "127.0.0.1:8080", "example.com:1", "[::1]:9"}[r.Intn(4)], []string{"/", "/a", "/a/b/c", "/user/@future@x", "/x-1/y_2"}[r.Intn(5)]
}

func (g *codecGen) envTail() string {
	r := g.c.Rng
	ref := func() (string, string) {
		if r.Chance(1, 3) {
			return "", ""
		}
		return []string{"localhost", "127.0.0.1:8080", "example.com:1"}[r.Intn(3)], []string{"/", "/a", "/a/b/c", "/user/@future@x"}[r.Intn(4)]
	}
	sa, sp := ref()
	ra, rp := ref()
	return g.boolean() + " " + g.tok(sa) + " " + g.tok(sp) + " " + g.tok(ra) + " " + g.tok(rp)
}

// malformed feeds every truncation and single-byte corruptions of a valid encoding to the decoder.
func (g *codecGen) malformed(raw []byte, op string, corrupt bool) {
	c := g.c
	step := 1
	if len(raw) > 80 && !c.Thorough() {
		step = len(raw) / 40
	}
	if len(raw) > 400 && c.Thorough() {
		step = len(raw) / 200
	}
	for cut := 0; cut < len(raw); cut += step {
		o := c.Do(op + " x" + hex.EncodeToString(raw[:cut]))
		c.R.Hit("truncated:" + strings.Fields(o)[0])
	}
	for pos := 0; corrupt && pos < len(raw); pos += step {
		b := append([]byte(nil), raw...)
		switch c.Rng.Intn(3) {
		case 0:
			b[pos] ^= 1 << uint(c.Rng.Intn(8))
		case 1:
			b[pos] = 0xFF
		default:
			b[pos] = byte(c.Rng.U64())
		}
		o := c.Do(op + " x" + hex.EncodeToString(b))
		c.R.Hit("corrupted:" + strings.Fields(o)[0])
	}
}

// unmodelledRoundTrips: registered messages that have no Lean schema are checked on the
// implementation side only: decode(encode(v)) must equal v.
func (e *codecEngine) unmodelledRoundTrips(c *Ctx) {
	type tc struct {
		name string
		msg  any
		same func(a, b any) string
	}
	deep := func(a, b any) string {
		if !reflect.DeepEqual(a, b) {
			return fmt.Sprintf("sent %+v got %+v", a, b)
		}
		return ""
	}
	cases := []tc{
		{"OnKill", &vivid.OnKill{Killer: &stubRef{"localhost", "/a"}, Reason: "r", Poison: true}, func(a, b any) string {
			x, y := a.(*vivid.OnKill), b.(*vivid.OnKill)
			if y.Killer == nil || !x.Killer.Equals(y.Killer) || x.Reason != y.Reason || x.Poison != y.Poison {
				return fmt.Sprintf("sent %+v got %+v", x, y)
			}
			return ""
		}},
		{"OnKilled", &vivid.OnKilled{Ref: &stubRef{"localhost", "/a"}}, func(a, b any) string {
			x, y := a.(*vivid.OnKilled), b.(*vivid.OnKilled)
			if y.Ref == nil || !x.Ref.Equals(y.Ref) {
				return fmt.Sprintf("sent %+v got %+v", x, y)
			}
			return ""
		}},
		{"PipeResult", &vivid.PipeResult{Id: "p1", Message: &messages.PingMessage{Time: time.Unix(0, 5)}}, func(a, b any) string {
			x, y := a.(*vivid.PipeResult), b.(*vivid.PipeResult)
			if x.Id != y.Id || y.Error != nil {
				return fmt.Sprintf("sent %+v got %+v", x, y)
			}
			return deep(x.Message, y.Message)
		}},
		{"PipeResult", &vivid.PipeResult{Id: "p3", Error: fmt.Errorf("boom")}, func(a, b any) string {
			// a failure that is not a *vivid.Error travels as the exception code: it must still be a failure
			x, y := a.(*vivid.PipeResult), b.(*vivid.PipeResult)
			if x.Id != y.Id || y.Error == nil || !strings.Contains(y.Error.Error(), "boom") {
				return fmt.Sprintf("a failed result (error %v) decodes as id=%s error=%v", x.Error, y.Id, y.Error)
			}
			return ""
		}},
		{"PipeResult", &vivid.PipeResult{Id: "p2", Message: &vivid.OnLaunch{}, Error: vivid.ErrorFutureTimeout}, func(a, b any) string {
			x, y := a.(*vivid.PipeResult), b.(*vivid.PipeResult)
			if x.Id != y.Id || y.Error == nil || !errors.Is(y.Error, vivid.ErrorFutureTimeout) {
				return fmt.Sprintf("sent %+v got %+v", x, y)
			}
			return ""
		}},
	}
	for _, t := range cases {
		c.R.Hit("impl-roundtrip:" + t.name)
		func() {
			defer func() {
				if r := recover(); r != nil {
					c.R.Violate("codec", fmt.Sprintf("ROUND-TRIP(impl-only): %s panics: %v", t.name, r))
				}
			}()
			w := messages.NewWriter()
			if err := w.WriteMessage(t.msg, stubCodec{}); err != nil {
				c.R.Violate("codec", fmt.Sprintf("ROUND-TRIP(impl-only): %s does not encode: %v", t.name, err))
				return
			}
			back, err := messages.NewReader(append([]byte(nil), w.Bytes()...)).ReadMessage(stubCodec{})
			if err != nil {
				c.R.Violate("codec", fmt.Sprintf("ROUND-TRIP(impl-only): %s does not decode: %v", t.name, err))
				return
			}
			if d := t.same(t.msg, back); d != "" {
				c.R.Violate("codec", fmt.Sprintf("ROUND-TRIP(impl-only): %s changed: %s", t.name, d))
			}
		}()
	}
}

// DumpRegistry prints the wire names of every registered internal message (for the Registry translator).
func DumpRegistry() {
	names := messages.VerifRegisteredNames()
	sort.Strings(names)
	for _, n := range names {
		if strings.HasPrefix(n, "verif") {
			continue // custom messages registered by the harness's own engines
		}
		fmt.Println(n)
	}
}

type namedU8 uint8
type namedStr string
type unexp struct{ a int32 }
type withIface struct{ X any }

// WriteKinds: Go values handed to Writer.Write; the first group is supported (ok), the second is not (must be err).
var WriteKinds = []string{"uint8", "int8", "uint16", "int16", "uint32", "int32", "uint64", "int64", "float32", "float64", "bool", "string", "bytes",
	"ptr-uint32", "slice-uint16", "array-uint8", "struct-exported", "struct-unexported", "nil-bytes-ptr",
	"int", "uint", "uintptr", "named-uint8", "named-string", "map", "nil", "nil-ptr", "ptr-int", "chan", "func", "complex128", "slice-int", "slice-any", "struct-iface-nil"}

func writeValue(kind string) any {
	switch kind {
	case "uint8":
		return uint8(7)
	case "int8":
		return int8(-7)
	case "uint16":
		return uint16(7)
	case "int16":
		return int16(-7)
	case "uint32":
		return uint32(7)
	case "int32":
		return int32(-7)
	case "uint64":
		return uint64(7)
	case "int64":
		return int64(-7)
	case "float32":
		return float32(1.5)
	case "float64":
		return float64(1.5)
	case "bool":
		return true
	case "string":
		return "s"
	case "bytes":
		return []byte{1, 2}
	case "ptr-uint32":
		x := uint32(9)
		return &x
	case "slice-uint16":
		return []uint16{1, 2}
	case "array-uint8":
		return [2]uint8{1, 2}
	case "struct-exported":
		return struct {
			A uint32
			B string
		}{1, "b"}
	case "struct-unexported":
		return unexp{1}
	case "nil-bytes-ptr":
		var p *[]byte
		return p
	case "int":
		return int(5)
	case "uint":
		return uint(5)
	case "uintptr":
		return uintptr(5)
	case "named-uint8":
		return namedU8(5)
	case "named-string":
		return namedStr("x")
	case "map":
		return map[string]string{"a": "b"}
	case "nil":
		return nil
	case "nil-ptr":
		var p *int32
		return p
	case "ptr-int":
		x := 5
		return &x
	case "chan":
		return make(chan int)
	case "func":
		return func() {}
	case "complex128":
		return complex(1, 2)
	case "slice-int":
		return []int{1}
	case "slice-any":
		return []any{uint8(1)}
	case "struct-iface-nil":
		return withIface{}
	}
	return nil
}

// CodecWrite1 runs in the child process.
func CodecWrite1(kind string) {
	debug.SetMaxStack(32 << 20)
	defer func() {
		if r := recover(); r != nil {
			fmt.Println("RESULT panic", r)
		}
	}()
	w := messages.NewWriter()
	w.Write(writeValue(kind))
	if w.Err() != nil {
		fmt.Println("RESULT err", w.Err())
		return
	}
	fmt.Println("RESULT ok", hex.EncodeToString(w.Bytes()))
}
