// Package access extracts, from the Go source of kercylan98/vivid, the table of shared-field
// accesses of the actor core: for every read or write of a struct field, the locks lexically
// held, whether it is an atomic operation, and the role of the goroutine that can execute it
// (any goroutine through the documented-concurrent API / the actor's own mailbox goroutine /
// construction before publication / Start-Stop lifecycle). The table is regenerated on every
// run and rendered as a Lean definition; the Lean side decides the lockset discipline on it.
//
// Purely syntactic (go/ast), with a light local type inference that is enough for this code base:
// receiver, parameters and fields whose type is (a pointer to) a struct of the analysed packages.
package access

import (
	"fmt"
	"go/ast"
	"go/parser"
	"go/token"
	"os"
	"path/filepath"
	"sort"
	"strings"
)

type Access struct {
	Struct, Field string
	Write, Atomic bool
	Locks         []string // "Struct.field:W" or ":R"
	Role          string   // any | owner | init | lifecycle
	Site          string   // func:line
}

type fn struct {
	recv     string // struct name or ""
	recvName string
	name     string
	decl     *ast.FuncDecl
	file     string
}

type extractor struct {
	fset    *token.FileSet
	structs map[string]map[string]string // struct -> field -> type string
	embeds  map[string][]string          // struct -> embedded struct names
	funcs   map[string]*fn               // "Recv.name" or ".name"
	out     map[string]Access
	visited map[string]bool
}

// Entry points. The concurrent API is the list in property C10; Context's other exported
// methods are documented as usable only from the actor's own message handler.
var anyEntries = []string{
	"System.ActorOf", "System.FindActor", "System.ParseRef", "System.CreateRef", "System.Logger", "System.Cluster",
	"System.HandleRemotingEnvelop", "System.HandleFailedRemotingEnvelop",
	"Context.Tell", "Context.Ask", "Context.Kill", "Context.Ping", "Context.EventStream", "Context.Logger", "Context.Ref",
	"eventStream.Subscribe", "eventStream.Publish", "eventStream.Unsubscribe", "eventStream.UnsubscribeAll",
	"Future.Result", "Future.Wait", "Future.Close", "Future.PipeTo", "Future.Enqueue", "Future.EnqueueMessage", "Future.Pause", "Future.Resume", "Future.IsPaused",
	"Ref.GetPath", "Ref.GetAddress", "Ref.Equals", "Ref.Clone", "Ref.ToActorRefs", "Ref.String", "Ref.Child",
}
var lifecycleEntries = []string{"System.Start", "System.Stop"}

func typeString(e ast.Expr) string {
	switch t := e.(type) {
	case *ast.Ident:
		return t.Name
	case *ast.StarExpr:
		return "*" + typeString(t.X)
	case *ast.SelectorExpr:
		return typeString(t.X) + "." + t.Sel.Name
	case *ast.ArrayType:
		return "[]" + typeString(t.Elt)
	case *ast.MapType:
		return "map[" + typeString(t.Key) + "]" + typeString(t.Value)
	case *ast.ChanType:
		return "chan " + typeString(t.Value)
	case *ast.IndexExpr:
		return typeString(t.X) + "[" + typeString(t.Index) + "]"
	case *ast.FuncType:
		return "func"
	case *ast.InterfaceType:
		return "interface"
	}
	return "?"
}

func selfSynchronised(t string) bool {
	t = strings.TrimPrefix(t, "*")
	return strings.HasPrefix(t, "sync.") || strings.HasPrefix(t, "atomic.") || strings.HasPrefix(t, "chan ") ||
		strings.HasPrefix(t, "singleflight.")
}

func Extract(repo string) ([]Access, error) {
	x := &extractor{fset: token.NewFileSet(), structs: map[string]map[string]string{}, embeds: map[string][]string{},
		funcs: map[string]*fn{}, out: map[string]Access{}, visited: map[string]bool{}}
	var files []string
	for _, pat := range []string{"internal/actor/*.go", "internal/future/*.go"} {
		m, _ := filepath.Glob(filepath.Join(repo, pat))
		files = append(files, m...)
	}
	sort.Strings(files)
	for _, f := range files {
		if strings.HasSuffix(f, "_test.go") {
			continue
		}
		src, err := os.ReadFile(f)
		if err != nil {
			return nil, err
		}
		if strings.HasPrefix(string(src), "//go:build verif") {
			continue
		}
		af, err := parser.ParseFile(x.fset, f, src, 0)
		if err != nil {
			return nil, err
		}
		for _, d := range af.Decls {
			switch d := d.(type) {
			case *ast.GenDecl:
				for _, sp := range d.Specs {
					ts, ok := sp.(*ast.TypeSpec)
					if !ok {
						continue
					}
					st, ok := ts.Type.(*ast.StructType)
					if !ok {
						continue
					}
					fields := map[string]string{}
					for _, fl := range st.Fields.List {
						t := typeString(fl.Type)
						if len(fl.Names) == 0 {
							base := strings.TrimPrefix(t, "*")
							fields[base] = t
							x.embeds[ts.Name.Name] = append(x.embeds[ts.Name.Name], base)
						}
						for _, n := range fl.Names {
							fields[n.Name] = t
						}
					}
					x.structs[ts.Name.Name] = fields
				}
			case *ast.FuncDecl:
				if d.Body == nil {
					continue
				}
				f := &fn{name: d.Name.Name, decl: d, file: filepath.Base(f)}
				if d.Recv != nil && len(d.Recv.List) == 1 {
					t := typeString(d.Recv.List[0].Type)
					t = strings.TrimPrefix(t, "*")
					if i := strings.Index(t, "["); i >= 0 {
						t = t[:i]
					}
					f.recv = t
					if len(d.Recv.List[0].Names) == 1 {
						f.recvName = d.Recv.List[0].Names[0].Name
					}
				}
				x.funcs[f.recv+"."+f.name] = f
			}
		}
	}
	for _, e := range anyEntries {
		if err := x.enter(e, "any", nil); err != nil {
			return nil, err
		}
	}
	for _, e := range lifecycleEntries {
		if err := x.enter(e, "lifecycle", nil); err != nil {
			return nil, err
		}
	}
	// every exported Context method and the envelope handler run on the actor's own goroutine
	var names []string
	for k := range x.funcs {
		names = append(names, k)
	}
	sort.Strings(names)
	for _, k := range names {
		f := x.funcs[k]
		if f.recv == "Context" && ast.IsExported(f.name) {
			if err := x.enter(k, "owner", nil); err != nil {
				return nil, err
			}
		}
	}
	var res []Access
	for _, a := range x.out {
		res = append(res, a)
	}
	sort.Slice(res, func(i, j int) bool { return key(res[i]) < key(res[j]) })
	return res, nil
}

func key(a Access) string {
	return fmt.Sprintf("%s.%s|%v|%v|%s|%s|%s", a.Struct, a.Field, a.Write, a.Atomic, strings.Join(a.Locks, ","), a.Role, a.Site)
}

func (x *extractor) enter(name, role string, held []string) error {
	f := x.funcs[name]
	if f == nil {
		return fmt.Errorf("access: entry point %s not found in the source (renamed? update the entry list)", name)
	}
	x.walkFn(f, role, held)
	return nil
}

type env struct {
	vars map[string]string // local name -> struct name ("" unknown); "!S" = freshly constructed S
	// local name -> (struct, field): the local holds a map that IS the field's map or one of its
	// values (x := s.f, x := s.f[k], x, ok := s.f[k]); the map outlives the lock region it was read in,
	// so every later use of the local is an access to the field's data with the locks held THEN
	alias map[string][2]string
	role  string
	f     *fn
}

func (x *extractor) walkFn(f *fn, role string, held []string) {
	if f.recv == "contextInitializer" {
		role = "init" // runs inside NewContext, before the context is registered anywhere
	}
	vk := f.recv + "." + f.name + "|" + role + "|" + strings.Join(held, ",")
	if x.visited[vk] {
		return
	}
	x.visited[vk] = true
	e := &env{vars: map[string]string{}, alias: map[string][2]string{}, role: role, f: f}
	if f.recvName != "" {
		e.vars[f.recvName] = f.recv
	}
	for _, p := range f.decl.Type.Params.List {
		t := strings.TrimPrefix(typeString(p.Type), "*")
		if _, ok := x.structs[t]; ok {
			for _, n := range p.Names {
				e.vars[n.Name] = t
			}
		}
	}
	x.block(f.decl.Body.List, e, append([]string(nil), held...))
}

// resolve returns the struct type of expression ex, "" if unknown; fresh=true if it designates an
// object constructed in this function (not yet shared).
func (x *extractor) resolve(ex ast.Expr, e *env) (string, bool) {
	switch t := ex.(type) {
	case *ast.Ident:
		v := e.vars[t.Name]
		if strings.HasPrefix(v, "!") {
			return v[1:], true
		}
		return v, false
	case *ast.ParenExpr:
		return x.resolve(t.X, e)
	case *ast.StarExpr:
		return x.resolve(t.X, e)
	case *ast.SelectorExpr:
		s, fresh := x.resolve(t.X, e)
		if s == "" {
			return "", false
		}
		owner, ft := x.field(s, t.Sel.Name)
		if owner == "" {
			return "", false
		}
		ft = strings.TrimPrefix(ft, "*")
		if _, ok := x.structs[ft]; ok {
			return ft, fresh
		}
		return "", false
	case *ast.TypeAssertExpr:
		if t.Type != nil {
			ft := strings.TrimPrefix(typeString(t.Type), "*")
			if _, ok := x.structs[ft]; ok {
				return ft, false
			}
		}
	case *ast.UnaryExpr:
		if t.Op == token.AND {
			if cl, ok := t.X.(*ast.CompositeLit); ok {
				ft := typeString(cl.Type)
				if i := strings.Index(ft, "["); i >= 0 {
					ft = ft[:i]
				}
				if _, ok := x.structs[ft]; ok {
					return ft, true
				}
			}
		}
	case *ast.CallExpr:
		// constructor calls NewX(...) return fresh objects of type X / Context / ...
		if id, ok := t.Fun.(*ast.Ident); ok {
			if f := x.funcs["."+id.Name]; f != nil && f.decl.Type.Results != nil && len(f.decl.Type.Results.List) > 0 {
				rt := strings.TrimPrefix(typeString(f.decl.Type.Results.List[0].Type), "*")
				if i := strings.Index(rt, "["); i >= 0 {
					rt = rt[:i]
				}
				if _, ok := x.structs[rt]; ok {
					return rt, strings.HasPrefix(id.Name, "New") || strings.HasPrefix(id.Name, "new")
				}
			}
		}
	}
	return "", false
}

// field finds field name in struct s or, promoted, in its embedded structs.
func (x *extractor) field(s, name string) (owner, typ string) {
	if t, ok := x.structs[s][name]; ok {
		return s, t
	}
	for _, em := range x.embeds[s] {
		if o, t := x.field(em, name); o != "" {
			return o, t
		}
	}
	return "", ""
}

func lockCall(call *ast.CallExpr) (target ast.Expr, op string) {
	sel, ok := call.Fun.(*ast.SelectorExpr)
	if !ok {
		return nil, ""
	}
	switch sel.Sel.Name {
	case "Lock", "Unlock", "RLock", "RUnlock":
		return sel.X, sel.Sel.Name
	}
	return nil, ""
}

func (x *extractor) lockName(target ast.Expr, e *env) string {
	sel, ok := target.(*ast.SelectorExpr)
	if !ok {
		return ""
	}
	s, _ := x.resolve(sel.X, e)
	if s == "" {
		return ""
	}
	owner, t := x.field(s, sel.Sel.Name)
	if owner == "" || !strings.HasPrefix(strings.TrimPrefix(t, "*"), "sync.") {
		return ""
	}
	return owner + "." + sel.Sel.Name
}

func without(held []string, name string) []string {
	var out []string
	for _, h := range held {
		if !strings.HasPrefix(h, name+":") {
			out = append(out, h)
		}
	}
	return out
}

func endsInReturn(list []ast.Stmt) bool {
	if len(list) == 0 {
		return false
	}
	switch s := list[len(list)-1].(type) {
	case *ast.ReturnStmt:
		return true
	case *ast.ExprStmt:
		if c, ok := s.X.(*ast.CallExpr); ok {
			if id, ok := c.Fun.(*ast.Ident); ok && id.Name == "panic" {
				return true
			}
		}
	}
	return false
}

func intersect(a, b []string) []string {
	var out []string
	for _, x := range a {
		for _, y := range b {
			if x == y {
				out = append(out, x)
			}
		}
	}
	return out
}

// block walks statements in order, threading the held-lock set; returns the set at the end.
func (x *extractor) block(list []ast.Stmt, e *env, held []string) []string {
	for i, st := range list {
		held = x.stmt(st, e, held)
		// publication idioms, rendered as pseudo-locks:
		//   if !o.flag.CompareAndSwap(false, true) { return }   -- the unique winner continues: "S.flag" held exclusively
		//   ... writes ...; close(o.ch)                        -- until the close the winner also holds "S.ch" exclusively
		//   <-o.ch                                              -- a receiver holds "S.ch" shared from here on
		if flag := x.casGuard(st, e); flag != "" {
			held = append(held, flag+":W")
			for _, later := range list[i+1:] {
				if ch := x.closeOf(later, e); ch != "" {
					held = append(held, ch+":W")
					break
				}
			}
		}
		if ch := x.closeOf(st, e); ch != "" {
			held = without(held, ch)
		}
		if ch := x.recvOf(st, e); ch != "" {
			held = append(held, ch+":R")
		}
	}
	return held
}

func (x *extractor) fieldName(ex ast.Expr, e *env, wantPrefix string) string {
	sel, ok := ex.(*ast.SelectorExpr)
	if !ok {
		return ""
	}
	s, _ := x.resolve(sel.X, e)
	if s == "" {
		return ""
	}
	owner, t := x.field(s, sel.Sel.Name)
	if owner == "" || !strings.HasPrefix(strings.TrimPrefix(t, "*"), wantPrefix) {
		return ""
	}
	return owner + "." + sel.Sel.Name
}

func (x *extractor) casGuard(st ast.Stmt, e *env) string {
	is, ok := st.(*ast.IfStmt)
	if !ok || is.Init != nil || is.Else != nil || !endsInReturn(is.Body.List) {
		return ""
	}
	not, ok := is.Cond.(*ast.UnaryExpr)
	if !ok || not.Op != token.NOT {
		return ""
	}
	call, ok := not.X.(*ast.CallExpr)
	if !ok || len(call.Args) != 2 {
		return ""
	}
	sel, ok := call.Fun.(*ast.SelectorExpr)
	if !ok || sel.Sel.Name != "CompareAndSwap" {
		return ""
	}
	a0, ok0 := call.Args[0].(*ast.Ident)
	a1, ok1 := call.Args[1].(*ast.Ident)
	if !ok0 || !ok1 || a0.Name != "false" || a1.Name != "true" {
		return ""
	}
	return x.fieldName(sel.X, e, "atomic.Bool")
}

func (x *extractor) closeOf(st ast.Stmt, e *env) string {
	es, ok := st.(*ast.ExprStmt)
	if !ok {
		return ""
	}
	call, ok := es.X.(*ast.CallExpr)
	if !ok || len(call.Args) != 1 {
		return ""
	}
	if id, ok := call.Fun.(*ast.Ident); !ok || id.Name != "close" {
		return ""
	}
	return x.fieldName(call.Args[0], e, "chan ")
}

func (x *extractor) recvOf(st ast.Stmt, e *env) string {
	es, ok := st.(*ast.ExprStmt)
	if !ok {
		return ""
	}
	u, ok := es.X.(*ast.UnaryExpr)
	if !ok || u.Op != token.ARROW {
		return ""
	}
	return x.fieldName(u.X, e, "chan ")
}

func (x *extractor) nested(list []ast.Stmt, e *env, held []string) []string {
	after := x.block(list, e, append([]string(nil), held...))
	if endsInReturn(list) {
		return held
	}
	return intersect(held, after)
}

func (x *extractor) stmt(st ast.Stmt, e *env, held []string) []string {
	switch s := st.(type) {
	case *ast.ExprStmt:
		if call, ok := s.X.(*ast.CallExpr); ok {
			if tgt, op := lockCall(call); tgt != nil {
				if n := x.lockName(tgt, e); n != "" {
					switch op {
					case "Lock":
						return append(held, n+":W")
					case "RLock":
						return append(held, n+":R")
					default:
						return without(held, n)
					}
				}
			}
		}
		x.expr(s.X, e, held, false)
	case *ast.DeferStmt:
		if tgt, op := lockCall(s.Call); tgt != nil && (op == "Unlock" || op == "RUnlock") && x.lockName(tgt, e) != "" {
			return held // released at function exit
		}
		if fl, ok := s.Call.Fun.(*ast.FuncLit); ok {
			x.block(fl.Body.List, e, append([]string(nil), held...))
		} else {
			x.expr(s.Call, e, held, false)
		}
	case *ast.GoStmt:
		ae := &env{vars: e.vars, alias: e.alias, role: "any", f: e.f}
		if fl, ok := s.Call.Fun.(*ast.FuncLit); ok {
			publishCaptured(fl, e)
			x.block(fl.Body.List, ae, nil)
		} else {
			x.expr(s.Call, ae, nil, false)
		}
		for _, a := range s.Call.Args {
			x.expr(a, e, held, false)
		}
	case *ast.AssignStmt:
		for _, r := range s.Rhs {
			x.expr(r, e, held, false)
		}
		for i, l := range s.Lhs {
			if id, ok := l.(*ast.Ident); ok {
				{
					var rhs ast.Expr
					if len(s.Rhs) == len(s.Lhs) {
						rhs = s.Rhs[i]
					} else if len(s.Rhs) == 1 && i == 0 {
						rhs = s.Rhs[0]
					}
					if rhs != nil {
						if st, f, ok := x.mapAlias(rhs, e); ok {
							e.alias[id.Name] = [2]string{st, f}
						} else if c, isCall := rhs.(*ast.CallExpr); isCall {
							if fn, isId := c.Fun.(*ast.Ident); !isId || fn.Name != "make" {
								delete(e.alias, id.Name)
							}
							// x = make(...) in the "not found" branch of a lookup: the local still stands for the field's data
						} else {
							delete(e.alias, id.Name)
						}
					}
				}
				if s.Tok == token.DEFINE || e.vars[id.Name] == "" {
					var rhs ast.Expr
					if len(s.Rhs) == len(s.Lhs) {
						rhs = s.Rhs[i]
					} else if len(s.Rhs) == 1 && i == 0 {
						rhs = s.Rhs[0]
					}
					if rhs != nil {
						if t, fresh := x.resolve(rhs, e); t != "" {
							if fresh {
								e.vars[id.Name] = "!" + t
							} else {
								e.vars[id.Name] = t
							}
						}
					}
				}
				continue
			}
			x.expr(l, e, held, true)
		}
	case *ast.IncDecStmt:
		x.expr(s.X, e, held, true)
	case *ast.ReturnStmt:
		for _, r := range s.Results {
			x.expr(r, e, held, false)
		}
	case *ast.IfStmt:
		if s.Init != nil {
			held = x.stmt(s.Init, e, held)
		}
		x.expr(s.Cond, e, held, false)
		a := x.nested(s.Body.List, e, held)
		b := held
		if s.Else != nil {
			switch el := s.Else.(type) {
			case *ast.BlockStmt:
				b = x.nested(el.List, e, held)
			default:
				b = x.stmt(el, e, append([]string(nil), held...))
			}
		}
		return intersect(a, b)
	case *ast.BlockStmt:
		return x.block(s.List, e, held)
	case *ast.ForStmt:
		if s.Init != nil {
			held = x.stmt(s.Init, e, held)
		}
		if s.Cond != nil {
			x.expr(s.Cond, e, held, false)
		}
		if s.Post != nil {
			x.stmt(s.Post, e, held)
		}
		return x.nested(s.Body.List, e, held)
	case *ast.RangeStmt:
		x.expr(s.X, e, held, false)
		return x.nested(s.Body.List, e, held)
	case *ast.SwitchStmt:
		if s.Init != nil {
			held = x.stmt(s.Init, e, held)
		}
		if s.Tag != nil {
			x.expr(s.Tag, e, held, false)
		}
		for _, c := range s.Body.List {
			cc := c.(*ast.CaseClause)
			for _, v := range cc.List {
				x.expr(v, e, held, false)
			}
			x.nested(cc.Body, e, held)
		}
	case *ast.TypeSwitchStmt:
		var bind string
		var subject ast.Expr
		switch a := s.Assign.(type) {
		case *ast.AssignStmt:
			if id, ok := a.Lhs[0].(*ast.Ident); ok {
				bind = id.Name
			}
			if ta, ok := a.Rhs[0].(*ast.TypeAssertExpr); ok {
				subject = ta.X
			}
		case *ast.ExprStmt:
			if ta, ok := a.X.(*ast.TypeAssertExpr); ok {
				subject = ta.X
			}
		}
		if subject != nil {
			x.expr(subject, e, held, false)
		}
		for _, c := range s.Body.List {
			cc := c.(*ast.CaseClause)
			if bind != "" && len(cc.List) == 1 {
				t := strings.TrimPrefix(typeString(cc.List[0]), "*")
				if _, ok := x.structs[t]; ok {
					e.vars[bind] = t
				} else {
					e.vars[bind] = ""
				}
			}
			x.nested(cc.Body, e, held)
		}
	case *ast.SelectStmt:
		for _, c := range s.Body.List {
			cc := c.(*ast.CommClause)
			if cc.Comm != nil {
				x.stmt(cc.Comm, e, held)
			}
			x.nested(cc.Body, e, held)
		}
	case *ast.SendStmt:
		x.expr(s.Chan, e, held, false)
		x.expr(s.Value, e, held, false)
	case *ast.DeclStmt:
		if gd, ok := s.Decl.(*ast.GenDecl); ok {
			for _, sp := range gd.Specs {
				if vs, ok := sp.(*ast.ValueSpec); ok {
					for i, v := range vs.Values {
						x.expr(v, e, held, false)
						if i < len(vs.Names) {
							if t, fresh := x.resolve(v, e); t != "" {
								if fresh {
									t = "!" + t
								}
								e.vars[vs.Names[i].Name] = t
							}
						}
					}
					if vs.Type != nil {
						t := strings.TrimPrefix(typeString(vs.Type), "*")
						if _, ok := x.structs[t]; ok {
							for _, n := range vs.Names {
								e.vars[n.Name] = t
							}
						}
					}
				}
			}
		}
	case *ast.LabeledStmt:
		return x.stmt(s.Stmt, e, held)
	}
	return held
}

// publishCaptured: an object constructed in this function that is captured by a closure running
// on another goroutine is shared from that point on.
func publishCaptured(fl *ast.FuncLit, e *env) {
	ast.Inspect(fl.Body, func(n ast.Node) bool {
		if id, ok := n.(*ast.Ident); ok {
			if v := e.vars[id.Name]; strings.HasPrefix(v, "!") {
				e.vars[id.Name] = v[1:]
			}
		}
		return true
	})
}

var atomicWrites = map[string]bool{"Store": true, "Add": true, "Swap": true, "CompareAndSwap": true}

func (x *extractor) record(s, f string, write, atomic bool, e *env, held []string, pos token.Pos, fresh bool) {
	owner, t := x.field(s, f)
	if owner == "" || selfSynchronised(t) {
		return
	}
	role := e.role
	if fresh {
		role = "init"
	}
	locks := append([]string(nil), held...)
	sort.Strings(locks)
	a := Access{Struct: owner, Field: f, Write: write, Atomic: atomic, Locks: locks, Role: role,
		Site: fmt.Sprintf("%s.%s:%d", e.f.recv, e.f.name, x.fset.Position(pos).Line)}
	x.out[key(a)] = a
}

// expr records the field accesses in ex; write=true when ex is in a write position.
func (x *extractor) expr(ex ast.Expr, e *env, held []string, write bool) {
	switch t := ex.(type) {
	case nil:
	case *ast.Ident:
		if a, ok := e.alias[t.Name]; ok {
			x.record(a[0], a[1], write, false, e, held, t.Pos(), false)
		}
	case *ast.SelectorExpr:
		s, fresh := x.resolve(t.X, e)
		if s != "" {
			if owner, _ := x.field(s, t.Sel.Name); owner != "" {
				x.record(s, t.Sel.Name, write, false, e, held, t.Pos(), fresh)
			}
		}
		x.expr(t.X, e, held, false)
	case *ast.IndexExpr:
		// m[k] = v writes the map the field refers to: treated as a write of the field
		x.expr(t.X, e, held, write)
		x.expr(t.Index, e, held, false)
	case *ast.StarExpr:
		x.expr(t.X, e, held, write)
	case *ast.ParenExpr:
		x.expr(t.X, e, held, write)
	case *ast.UnaryExpr:
		x.expr(t.X, e, held, false)
	case *ast.BinaryExpr:
		x.expr(t.X, e, held, false)
		x.expr(t.Y, e, held, false)
	case *ast.KeyValueExpr:
		x.expr(t.Value, e, held, false)
	case *ast.CompositeLit:
		for _, el := range t.Elts {
			x.expr(el, e, held, false)
		}
	case *ast.TypeAssertExpr:
		x.expr(t.X, e, held, false)
	case *ast.SliceExpr:
		x.expr(t.X, e, held, false)
		x.expr(t.Low, e, held, false)
		x.expr(t.High, e, held, false)
	case *ast.FuncLit:
		// a callback: assumed to run synchronously in the caller (recoverExec, Range, chains, singleflight)
		x.block(t.Body.List, e, append([]string(nil), held...))
	case *ast.CallExpr:
		x.call(t, e, held)
	}
}

func (x *extractor) call(c *ast.CallExpr, e *env, held []string) {
	// generic instantiation f[T](...) and package-qualified functions of the analysed packages
	if ix, ok := c.Fun.(*ast.IndexExpr); ok {
		c = &ast.CallExpr{Fun: ix.X, Args: c.Args, Lparen: c.Lparen, Rparen: c.Rparen}
	}
	if sel, ok := c.Fun.(*ast.SelectorExpr); ok {
		if pk, ok := sel.X.(*ast.Ident); ok && e.vars[pk.Name] == "" && (pk.Name == "future" || pk.Name == "actor") {
			if f := x.funcs["."+sel.Sel.Name]; f != nil {
				x.walkFn(f, e.role, held)
			}
		}
	}
	// builtins that write their first argument
	if id, ok := c.Fun.(*ast.Ident); ok {
		switch id.Name {
		case "delete":
			if len(c.Args) > 0 {
				x.expr(c.Args[0], e, held, true)
				for _, a := range c.Args[1:] {
					x.expr(a, e, held, false)
				}
				return
			}
		case "clear":
			if len(c.Args) > 0 {
				x.expr(c.Args[0], e, held, true)
				return
			}
		}
		if f := x.funcs["."+id.Name]; f != nil {
			x.walkFn(f, e.role, held)
		}
	}
	if sel, ok := c.Fun.(*ast.SelectorExpr); ok {
		// atomic.XxxInt32(&s.f, ...)
		if pk, ok := sel.X.(*ast.Ident); ok && pk.Name == "atomic" && len(c.Args) > 0 {
			if u, ok := c.Args[0].(*ast.UnaryExpr); ok && u.Op == token.AND {
				if fs, ok := u.X.(*ast.SelectorExpr); ok {
					if s, fresh := x.resolve(fs.X, e); s != "" {
						w := false
						for k := range atomicWrites {
							if strings.HasPrefix(sel.Sel.Name, k) {
								w = true
							}
						}
						x.record(s, fs.Sel.Name, w, true, e, held, fs.Pos(), fresh)
						x.expr(fs.X, e, held, false)
						for _, a := range c.Args[1:] {
							x.expr(a, e, held, false)
						}
						return
					}
				}
			}
		}
		// time.AfterFunc(d, func) runs the callback on its own goroutine
		if pk, ok := sel.X.(*ast.Ident); ok && pk.Name == "time" && sel.Sel.Name == "AfterFunc" && len(c.Args) == 2 {
			x.expr(c.Args[0], e, held, false)
			ae := &env{vars: e.vars, alias: e.alias, role: "any", f: e.f}
			if fl, ok := c.Args[1].(*ast.FuncLit); ok {
				publishCaptured(fl, e)
				x.block(fl.Body.List, ae, nil)
			}
			return
		}
		// method call on an object of a known struct: follow it with the locks held here
		if s, fresh := x.resolve(sel.X, e); s != "" {
			if owner, _ := x.field(s, sel.Sel.Name); owner == "" {
				if f := x.method(s, sel.Sel.Name); f != nil {
					role := e.role
					if fresh {
						role = "init"
					}
					x.walkFn(f, role, held)
				}
			}
		}
		x.expr(sel.X, e, held, false)
		// a call through a field (x.f.M()) reads the field: recorded by the SelectorExpr case above
	} else {
		x.expr(c.Fun, e, held, false)
	}
	for _, a := range c.Args {
		x.expr(a, e, held, false)
	}
}

// mapAlias: does ex denote a map that belongs to a struct field — the field's own map (s.f) or one
// of its values when the field is a map of maps (s.f[k])?
func (x *extractor) mapAlias(ex ast.Expr, e *env) (string, string, bool) {
	inner := false
	if ix, ok := ex.(*ast.IndexExpr); ok {
		ex, inner = ix.X, true
	}
	sel, ok := ex.(*ast.SelectorExpr)
	if !ok {
		return "", "", false
	}
	s, fresh := x.resolve(sel.X, e)
	if s == "" || fresh {
		return "", "", false
	}
	owner, t := x.field(s, sel.Sel.Name)
	if owner == "" || !strings.HasPrefix(t, "map[") {
		return "", "", false
	}
	if inner {
		// value type of the outer map: skip the (possibly nested) key type
		depth, k := 0, -1
		for i, c := range t {
			if c == '[' {
				depth++
			} else if c == ']' {
				depth--
				if depth == 0 {
					k = i
					break
				}
			}
		}
		if k < 0 || !strings.HasPrefix(t[k+1:], "map[") {
			return "", "", false
		}
	}
	return owner, sel.Sel.Name, true
}

func (x *extractor) method(s, name string) *fn {
	if f := x.funcs[s+"."+name]; f != nil {
		return f
	}
	for _, em := range x.embeds[s] {
		if f := x.method(em, name); f != nil {
			return f
		}
	}
	return nil
}
