// Package rec records the operation lines, the implementation's observations and the
// coverage statistics of one harness run.
package rec

import (
	"bufio"
	"encoding/json"
	"fmt"
	"hash/fnv"
	"os"
	"path/filepath"
	"sort"
)

type Violation struct {
	Monitor string   `json:"monitor"`
	Case    int      `json:"case"`
	Detail  string   `json:"detail"`
	Ops     []string `json:"ops,omitempty"`
}

type Rec struct {
	dir        string
	opsF, obsF *os.File
	ops, obs   *bufio.Writer
	Lines      int
	Cases      int
	distinct   map[uint64]struct{}
	Hist       map[string]int
	Samples    []string
	Violations []Violation
	Extra      map[string]any
	curCase    []string
	curNontriv bool
	MaxSamples int
	Quiet      bool // replay mode: print obs to stdout only
	pendF      *os.File
}

// Pending records the op line that is about to be executed, so that a fatal error of the
// process (out of memory, stack overflow — not recoverable in Go) leaves the failing input behind.
func (r *Rec) Pending(op string) {
	if r.pendF == nil {
		f, err := os.Create(filepath.Join(r.dir, "pending.txt"))
		if err != nil {
			return
		}
		r.pendF = f
	}
	b := []byte(op + "\n")
	r.pendF.Truncate(0)
	r.pendF.WriteAt(b, 0)
}

func New(dir string) (*Rec, error) {
	if err := os.MkdirAll(dir, 0o755); err != nil {
		return nil, err
	}
	r := &Rec{dir: dir, distinct: map[uint64]struct{}{}, Hist: map[string]int{}, Extra: map[string]any{}, MaxSamples: 6}
	var err error
	if r.opsF, err = os.Create(filepath.Join(dir, "ops.txt")); err != nil {
		return nil, err
	}
	if r.obsF, err = os.Create(filepath.Join(dir, "go.out")); err != nil {
		return nil, err
	}
	r.ops = bufio.NewWriterSize(r.opsF, 1<<20)
	r.obs = bufio.NewWriterSize(r.obsF, 1<<20)
	return r, nil
}

// Case starts a new case (a unit that replays on its own). The header line is itself an op
// line (engines treat it as a reset).
func (r *Rec) Case(header string, obs string) {
	r.endCase()
	r.Cases++
	r.curCase = r.curCase[:0]
	r.curNontriv = false
	r.Op(header, obs)
}

// Op records one operation line and the implementation's observation for it.
func (r *Rec) Op(op, obs string) {
	r.Lines++
	r.ops.WriteString(op)
	r.ops.WriteByte('\n')
	r.obs.WriteString(obs)
	r.obs.WriteByte('\n')
	r.curCase = append(r.curCase, op)
}

// Hit counts a branch / label / error kind in the histogram.
func (r *Rec) Hit(key string) { r.Hist[key]++ }

// Nontrivial marks the current case as non-trivial by the engine's stated rule.
func (r *Rec) Nontrivial() { r.curNontriv = true }

// CurrentOps returns a copy of the op lines of the case in progress.
func (r *Rec) CurrentOps() []string { return append([]string(nil), r.curCase...) }

func (r *Rec) Violate(monitor, detail string) {
	if len(r.Violations) < 20 {
		r.Violations = append(r.Violations, Violation{Monitor: monitor, Case: r.Cases, Detail: detail, Ops: r.CurrentOps()})
	}
}

func (r *Rec) endCase() {
	if len(r.curCase) == 0 {
		return
	}
	if r.curNontriv {
		h := fnv.New64a()
		for _, l := range r.curCase {
			h.Write([]byte(l))
			h.Write([]byte{'\n'})
		}
		r.distinct[h.Sum64()] = struct{}{}
		if len(r.Samples) < r.MaxSamples {
			s := ""
			for i, l := range r.curCase {
				if i > 0 {
					s += " ; "
				}
				s += l
				if len(s) > 400 {
					s += " ..."
					break
				}
			}
			r.Samples = append(r.Samples, s)
		}
	}
	r.curCase = r.curCase[:0]
}

type Stats struct {
	Lines              int            `json:"lines"`
	Cases              int            `json:"cases"`
	DistinctNontrivial int            `json:"distinct_nontrivial"`
	Hist               map[string]int `json:"hist"`
	Samples            []string       `json:"samples"`
	Violations         []Violation    `json:"violations"`
	Extra              map[string]any `json:"extra"`
}

func (r *Rec) Close() error {
	r.endCase()
	r.ops.Flush()
	r.obs.Flush()
	r.opsF.Close()
	r.obsF.Close()
	if r.pendF != nil {
		r.pendF.Close()
		os.Remove(filepath.Join(r.dir, "pending.txt"))
	}
	st := Stats{Lines: r.Lines, Cases: r.Cases, DistinctNontrivial: len(r.distinct), Hist: r.Hist, Samples: r.Samples, Violations: r.Violations, Extra: r.Extra}
	if st.Violations == nil {
		st.Violations = []Violation{}
	}
	if st.Samples == nil {
		st.Samples = []string{}
	}
	b, _ := json.MarshalIndent(st, "", " ")
	return os.WriteFile(filepath.Join(r.dir, "stats.json"), b, 0o644)
}

func SortedKeys[V any](m map[string]V) []string {
	ks := make([]string, 0, len(m))
	for k := range m {
		ks = append(ks, k)
	}
	sort.Strings(ks)
	return ks
}

func Sprintf(f string, a ...any) string { return fmt.Sprintf(f, a...) }
