// Package sched is the baton scheduler: it drives the real concurrent code
// deterministically through verifhook.Yield. Exactly one managed goroutine runs at a time;
// every goroutine that reaches a yield point parks, and the scheduler's client chooses who
// continues. A schedule is the list of chosen thread ids; replaying it reproduces the run.
package sched

import (
	"bytes"
	"fmt"
	"runtime"
	"strconv"
	"sync"
	"time"

	"github.com/kercylan98/vivid/internal/verifhook"
)

type Thread struct {
	ID     int // stable id in adoption order
	Name   string
	Site   string // the yield site it is parked at
	Obj    any
	Done   bool
	Data   any // client data (role, script position ...)
	gid    int64
	resume chan struct{}
	// Cond, when non-nil, must return true for the thread to be runnable (conditional park).
	Cond func() bool
}

type Sched struct {
	mu       sync.Mutex
	byGid    map[int64]*Thread
	Threads  []*Thread
	running  int
	spawns   int // goroutines announced (by a spawn site or Go) but not yet adopted
	idle     chan struct{}
	Filter   func(site string, obj any) bool // nil = every site is a scheduling point
	IsSpawn  func(site string) bool
	IsExit   func(site string) bool
	OnAdopt  func(t *Thread, parent *Thread)
	Watchdog time.Duration
	Steps    int
	Stuck    string // non-empty when the watchdog fired
	lastRun  *Thread
	nextName string
	// Coarse: spawn sites only announce the new goroutine and exit sites only retire the
	// thread; neither parks. Combined with a Filter that lets only a few sites park, a step
	// is then a whole handler execution instead of one atomic action.
	Coarse bool
}

func New() *Sched {
	s := &Sched{byGid: map[int64]*Thread{}, idle: make(chan struct{}, 1), Watchdog: 2 * time.Second}
	s.IsSpawn = func(string) bool { return false }
	s.IsExit = func(site string) bool { return site == "exit" }
	return s
}

func curGid() int64 {
	var buf [64]byte
	n := runtime.Stack(buf[:], false)
	// "goroutine 123 ["
	b := buf[:n]
	b = b[len("goroutine "):]
	i := bytes.IndexByte(b, ' ')
	id, _ := strconv.ParseInt(string(b[:i]), 10, 64)
	return id
}

// Install makes this scheduler the process-wide yield handler.
func (s *Sched) Install() { verifhook.Install(s.yield) }
func Uninstall()          { verifhook.Install(nil) }

func (s *Sched) yield(site string, obj any) {
	if s.Coarse {
		if s.IsSpawn(site) {
			s.mu.Lock()
			s.running++
			s.spawns++
			s.mu.Unlock()
			return
		}
		if s.IsExit(site) {
			gid := curGid()
			s.mu.Lock()
			if t := s.byGid[gid]; t != nil {
				t.Done = true
				t.Site = site
				delete(s.byGid, gid)
				s.running--
				if s.running == 0 {
					select {
					case s.idle <- struct{}{}:
					default:
					}
				}
			}
			s.mu.Unlock()
			return
		}
	}
	if s.Filter != nil && !s.Filter(site, obj) {
		return
	}
	gid := curGid()
	s.mu.Lock()
	t := s.byGid[gid]
	if t == nil {
		if s.spawns == 0 {
			// a goroutine the scheduler was not told about: let it run free
			s.mu.Unlock()
			return
		}
		s.spawns--
		t = &Thread{ID: len(s.Threads), gid: gid, resume: make(chan struct{}), Name: s.nextName}
		s.nextName = ""
		s.byGid[gid] = t
		s.Threads = append(s.Threads, t)
		if s.OnAdopt != nil {
			s.OnAdopt(t, s.lastRun)
		}
	}
	t.Site, t.Obj = site, obj
	s.running--
	if s.running == 0 {
		select {
		case s.idle <- struct{}{}:
		default:
		}
	}
	s.mu.Unlock()
	<-t.resume
}

// waitIdle blocks until no managed goroutine is running (all parked or gone).
func (s *Sched) waitIdle() bool {
	s.mu.Lock()
	if s.running == 0 {
		s.mu.Unlock()
		// drain a stale token
		select {
		case <-s.idle:
		default:
		}
		return true
	}
	s.mu.Unlock()
	select {
	case <-s.idle:
		return true
	case <-time.After(s.Watchdog):
		s.mu.Lock()
		r := s.running
		s.mu.Unlock()
		if r == 0 {
			return true
		}
		buf := make([]byte, 1<<16)
		n := runtime.Stack(buf, true)
		s.Stuck = fmt.Sprintf("watchdog: %d managed goroutine(s) neither parked nor finished after %v\n%s", r, s.Watchdog, buf[:n])
		return false
	}
}

// Go starts a managed goroutine running fn; it parks at site "start" before fn and at
// "exit" after it. Returns once it is parked.
func (s *Sched) Go(name string, fn func()) *Thread {
	s.mu.Lock()
	s.running++
	s.spawns++
	s.nextName = name
	n := len(s.Threads)
	s.mu.Unlock()
	go func() {
		s.yield("start", nil)
		fn()
		s.yield("exit", nil)
	}()
	if !s.waitIdle() {
		return nil
	}
	return s.Threads[n]
}

// Runnable lists the parked threads that may be resumed, in id order.
func (s *Sched) Runnable() []*Thread {
	var out []*Thread
	for _, t := range s.Threads {
		if !t.Done && (t.Cond == nil || t.Cond()) {
			out = append(out, t)
		}
	}
	return out
}

// Step resumes t and returns when every managed goroutine is parked again (t at its next
// yield point or gone, plus any goroutine it spawned at its first yield point).
// It returns false when the watchdog fired (see Stuck).
func (s *Sched) Step(t *Thread) bool {
	s.mu.Lock()
	s.Steps++
	s.lastRun = t
	if s.IsExit(t.Site) {
		t.Done = true
		delete(s.byGid, t.gid)
	} else {
		s.running++
		if s.IsSpawn(t.Site) {
			s.running++
			s.spawns++
		}
	}
	s.mu.Unlock()
	select {
	case t.resume <- struct{}{}:
	case <-time.After(s.Watchdog + time.Second):
		// the goroutine is not waiting at its yield point (it ran past it or is gone): never block the harness
		s.Stuck = fmt.Sprintf("watchdog: thread %d (%s) was resumed at %s but is not parked there", t.ID, t.Name, t.Site)
		return false
	}
	return s.waitIdle()
}

// Drain resumes every remaining thread until all are done (used to clean up after a case).
func (s *Sched) Drain(max int) bool {
	for i := 0; i < max; i++ {
		r := s.Runnable()
		if len(r) == 0 {
			return true
		}
		if !s.Step(r[0]) {
			return false
		}
	}
	return len(s.Runnable()) == 0
}

// Current returns the thread that was resumed last (the only one that can be running).
func (s *Sched) Current() *Thread { return s.lastRun }

// Yield lets harness-owned code (handlers, fake peers) mark a scheduling point itself.
func (s *Sched) Yield(site string, obj any) { s.yield(site, obj) }

// WaitIdle waits until every managed goroutine is parked (after an operation issued from an
// unmanaged goroutine, e.g. the harness itself calling into the system under test).
func (s *Sched) WaitIdle() bool { return s.waitIdle() }
