"""Per-property configuration of ./check: which Lean modules carry the obligations, which
translators regenerate their inputs, which harness engines tie the model to /repo."""

COMMON_TRUST = [
    'translators.py + `vh consts` (runtime dump of constants from the harness built against /repo)',
    'Go harness engines + canonicalisers (harness/engines), Lean driver engines (lean/Vivid/Engine)',
    'Go runtime, sync/atomic, sync.Mutex, channels: documented contracts, not verified',
]

PROPS = {}

PROPS['C16'] = dict(
    modules=['Vivid.Props.C16', 'Vivid.Props.C16Wire', 'Vivid.Tie.VVConstants'],
    gens=['constants'],
    engines=[dict(name='vv', must_hit=['cmp:equal', 'cmp:before', 'cmp:after', 'cmp:concurrent', 'err:overflow', 'err:invalid', 'prune:truncated', 'wide:over-limit', 'ser:max-counter', 'ser:refused', 'rd:truncated', 'rd:damaged'])],
    rule='vv: every pair of vectors over <=3 keys x {absent,0,1,2,max-1,max} (exhaustive: compare+merge), every increment on each of them x '
         '{present, absent, empty, 256- and 257-byte names}, then seeded random vectors over 12 names incl. prune with random limits; '
         'ser: write + read back of the enumerated vectors (counters up to the maximum), of counters above it and of 0/256/257-byte addresses, rd: truncated / bit-flipped / extended encodings; '
         'a case is non-trivial when both operands are non-empty and differ (pairs) or is an increment/prune; distinct = distinct op-line lists',
    exhaustive=True,
    trusted_base=COMMON_TRUST + ['Go map[string]uint64 modelled as an association list with distinct keys (WF); uint64 counters as Nat (no operation but Increment adds, and it guards at 2^63-1)'],
    assumptions=['map iteration order is arbitrary: theorems hold for every list order (results are functions of `get`)',
                 'the wire form is the schema vvTy of the codec model (shared with C12/C13); node addresses are byte strings'],
    explanation='Theorems: Compare decides the component-wise order (hence partial order laws), Merge is the join, Increment is strictly After; a vector within the limits survives serialisation unchanged (C16Wire: representable + round trip consuming exactly its bytes); '
                'tie: differential test of Compare/Merge/Increment/Compact/PruneWithMax against the model + independent oracle on the Go results + operand-immutability check.',
)

MB_TRANSITIONS = ("eU0>eU1 eU1>eC eS0>eS1 eS1>eC eC>eGo eC>exit eGo>exit pz0>exit r0>r1 r0>exit r1>rGo r1>exit rGo>exit "
    "cStart>cDecS cStart>cLoadP cDecS>cHndS cHndS>H cLoadP>cStore cLoadP>cPopU cPopU>cDecU cPopU>cStore cDecU>cHndU cHndU>H "
    "H>cStart cStore>cLoadN cLoadN>cLoadSyT cLoadN>cLoadSyF cLoadSyT>cReCas cLoadSyT>cLoadPz cLoadPz>cReCas cLoadPz>exit "
    "cLoadSyF>cReCas cLoadSyF>exit cReCas>cStart cReCas>exit H>hU1 hU1>hC H>hS1 hS1>hC hC>H H>H H>hR1 hR1>H").split()

PROPS['C01'] = dict(
    modules=['Vivid.Props.C01'],
    gens=[],
    engines=[dict(name='mailbox', must_hit=['t:' + t for t in MB_TRANSITIONS] + ['variant:fixed'])],
    rule='mailbox: the real UnboundedMailbox under the fine baton scheduler (every atomic op / queue op / go statement / handler call is a '
         'scheduling point). Scenarios = sets of concurrent Enqueue(user|system) / Pause / Resume calls with handlers that call '
         'Enqueue/Pause/Resume on their own mailbox; all schedules with <= 2 (quick) / 3 (thorough) preemptions of 10 fixed scenarios, then '
         'seeded random schedules of random scenarios (2-6 threads, re-entrant handlers). After every step the implementation state '
         '(status, paused, num, systemNum, queue lengths, handled counts, program point of every goroutine) is compared with the model. '
         'Every case is a distinct schedule (non-trivial: >= 2 concurrent calls); label-coverage gate: every transition of the model must fire.',
    trusted_base=COMMON_TRUST + ['baton scheduler + yield placement in unbounded_mailbox.go (a yield placed after instead of before an atomic op would hide an interleaving)',
                                 'sync/atomic operations are sequentially consistent; RingQueue.Push/Pop are atomic (they run under the ring mutex) and FIFO (C02_ring_refines_fifo)'],
    assumptions=['queues abstracted to their lengths in M2; message identity and order are covered by the ring refinement (C02) and by the harness monitor (exactly-once + per-sender FIFO by message id at quiescence)',
                 'handlers terminate'],
    explanation='Inductive invariant (token, counter lag, conservation, armed-wake-up, no nested spawn) over a counter-abstracted transition system with unboundedly many threads; '
                'no-lost-wake-up and conservation at quiescence; ranking-function proof that an idle mailbox does bounded work (repaired variant) and a cycle witness for the variant as found.',
)

PROPS['C02'] = dict(
    modules=['Vivid.Props.C02', 'Vivid.Props.C02Order', 'Vivid.Props.C02History'],
    gens=[],
    engines=[dict(name='ring', must_hit=['growth', 'growth-boundaries-crossed']), dict(name='ringbig', nomodel=True, must_hit=['rb:boundaries-to-2^23', 'rb:wrapped-head']), dict(name='mailbox', must_hit=[]),
             dict(name='actorsys', only=r'LOST-USER-MESSAGE|ended twice|PANIC|FATAL', must_hit=['ev:dead-letter'])],
    rule='ring: every Push/Pop sequence of length <= 12 (and Push/Pop/PopMany(2) of length <= 8) from initial sizes 1..4 (exhaustive), '
         'then long seeded random runs from sizes 256,1,2,3,5,8,16 with drain phases crossing many growth boundaries; New(0)+Push is the excluded point (panics on both sides). '
         'Non-trivial = at least one growth. ringbig (monitor only, reference FIFO = two counters): the real ring pushed across every growth boundary 2^k up to 2^23 (thorough: 2^25) pending items, from initial sizes 256, 1, 3, with 0, 1/4 or 3/4 of the pending items popped before each boundary (wrapped head at the copy), then drained: every item once, in order, Length() exact. mailbox: per-sender FIFO and system-before-user are monitored on the real mailbox under the baton scheduler. '
         'actorsys: the order clauses stated on M10 (C02Order: system first, user FIFO, Kill = system / poison Kill = user message, Unstash order) are tied by the actor-system lock-step: every step compares queue lengths, stash ids and what each behaviour saw, in order.',
    exhaustive=True,
    trusted_base=COMMON_TRUST + ['int64 indices modelled as Nat (overflow needs 2^62 queued items)'],
    assumptions=['ring operations are atomic (sync.Mutex); stash order and kill ordering are covered with the actor-system model (C03/C06 engines)'],
    explanation='Refinement proof: for every initial size n > 0 and every operation sequence the ring returns what a list FIFO returns (induction over ops; growth case included); order clauses (system first, user FIFO, kill kinds, unstash order) as theorems on the actor-system model; C02History lifts them to every history of one mailbox (any interleaving of enqueues by any senders, pause, resume, processing): processed ++ queued = arrival sequence per class, per-sender prefix order, user mail only picked when no system message is pending and not paused; deliver_eq_pick ties the history model to the selection policy of M10 deliver.',
)

PROPS['C17'] = dict(
    modules=['Vivid.Props.C17'],
    gens=[],
    engines=[dict(name='view', must_hit=['touch', 'merge:changed', 'merge:unchanged', 'skew-rule', 'non-wf-case'] + ['adopt:%s:strategy%d:%s:skew0' % (c, st, r) for c in ('concurrent', 'ordered') for st in (0, 1, 2) for r in ('remote-epoch-higher', 'remote-epoch-lower', 'epoch-eq')])],
    rule='view: three views built by random op sequences (AddMember incl. generation bumps and status changes, RemoveMember, IncrementVersion, direct epoch/timestamp/protocol) '
         'over <= 4 (thorough 5) node ids; then all merge orders of two and three views on snapshots (A<-B, B<-A, (A<-B)<-C, A<-(B<-C), self-merge), for every '
         'concurrent-version strategy and both outcomes of the clock-skew rule; dump of the whole view compared with the model after every op. '
         'A case is non-trivial when the first merge reports changed=true. 1 in 12 cases leaves the well-formed domain on purpose (logical clock 0 / version-vector keys outside the membership): compared with the model, monitors off.',
    trusted_base=COMMON_TRUST + ['time.Now() in the clock-skew rule: exercised only with timestamps far inside / far outside the window (1h window; now+-ns vs 1970)'],
    assumptions=['member tables are well-formed (map key = state id, logical clock non-zero): holds for newNodeState, the restart bump and results of merges (C17_merge_swf); the wire decoder can produce states outside it (noted under C13/C18)',
                 'version-vector monotonicity and the changed flag for the vector are checked by the harness monitor; the Lean theorem for the vector part needs members <= MaxVersionVectorEntries (known finding VV-CAP)'],
    explanation='Theorem: the membership after a merge is, per id, the lexicographic max of (generation, logical clock) of the two views, for all options; commutativity / associativity / idempotence, no removal, no regress are corollaries; epoch/timestamp/protocol never decrease; changed=false implies the member table is untouched.',
)

CODEC_RULE = ('codec: for every registered message with a schema, seeded random values built from the real Go structs (field values from {zero, empty, one element, extreme, random}) are '
    'encoded by the real Writer.WriteMessage and by the model (bytes compared), decoded by both (values compared), wrapped in envelopes with every sender/receiver combination incl. absent ones; '
    'then every truncation and single-byte corruption (bit flip / 0xFF / random) of those encodings, and random byte strings with hostile length fields, are decoded by both and the outcome class '
    '(ok value / unknown name / err) compared; the real decoder runs under recover, a 6 GiB address-space limit (a fatal OOM leaves the input behind) and a TotalAlloc meter; '
    'Writer.Write is called on every supported and unsupported Go kind in a child process (stack overflow is fatal in Go). Non-trivial = a value that encodes; distinct = distinct op lists.')

PROPS['C12'] = dict(
    modules=['Vivid.Props.C12', 'Vivid.Tie.Registry'],
    gens=['registry'],
    engines=[dict(name='codec', only=r'ROUND-TRIP', must_hit=['enc:clusterGossip', 'enc:clusterJoinRequest', 'enc:Error', 'enc:PongMessage', 'corrupted:ok', 'corrupted:err', 'truncated:err', 'impl-roundtrip:OnKill', 'rfl:units', 'rfl:batch', 'rfl:nested', 'rfl-zero-width:ok'])],
    rule=CODEC_RULE,
    trusted_base=COMMON_TRUST + ['token <-> Go struct converters in harness/engines/codec.go (one per schema)', 'reflect semantics of the reflective fallback: exercised through Writer.Write on a fixed list of kinds, not modelled in general'],
    assumptions=['WT guard = enc returns some: lengths/counts < 2^32, integers within their width, Generation/counts within int32, version-vector entries valid; canon: nil vs empty map, time.Time as UnixNano, nil member states dropped, Error.err chain not serialised',
                 'OnKill / OnKilled / PipeResult / SchedulerMessage / clusterSingletonForwardedMessage have no Lean schema (interface-typed or nested-arbitrary payload): tied by the implementation-side round-trip monitor only'],
    explanation='Generic structural-induction round-trip theorem over schema combinators (reader consumes exactly what the writer produced), instantiated by WriteMessage/ReadMessage framing and the envelope; registry tie: every registered name has a schema or is on the explicit unmodelled list.',
)

PROPS['C13'] = dict(
    modules=['Vivid.Props.C13', 'Vivid.Tie.Registry'],
    gens=['registry'],
    engines=[dict(name='codec', only=r'ALLOC|DEST-MODIFIED|ENCODE-SILENT|PANIC|FATAL|panic', must_hit=['truncated:err', 'corrupted:err', 'corrupted:ok', 'random:err', 'write:ok', 'write:err', 'memcap:65536',
                                                                                          'wnil:err', 'wzero:nopanic', 'rfl:u64s', 'rfl:strs', 'rfl:recs', 'rfl:nested', 'rfl:rec', 'rfl:units', 'rfl:batch', 'rfl-zero-width:ok', 'rfl-truncated:err', 'rfl-hostile:err', 'rflinto:err', 'rflinto:ok'])],
    rule=CODEC_RULE,
    trusted_base=COMMON_TRUST + ['runtime.MemStats.TotalAlloc as the allocation observation (budget 64 B per input byte + 16 MiB for the codec\'s own 65536-entry caps)'],
    assumptions=['no panic / no loop / no stack overflow are facts about the Go runtime: observed by the differential run (recover, child process), not provable in the model, whose decoder is total by construction',
                 'allocation theorem covers successful decodes of capped schemas; allocation on failing decodes is observed by the meter',
                 'the reflective reader (Reader.Read on Go slices / structs, the API of a user CustomMessageReader) is tied for five destination types ([]uint64, []string, []struct, [][]uint16, struct with a slice field); slices whose element type encodes to zero bytes (no exported field) are outside the allocation claim: the format itself lets 4 bytes stand for any number of them',
                 '"a failed decode leaves the previous value untouched" is a statement about Go mutation: the model states the specification (decInto) and the rflinto operation compares the real reader with it, including every backing array reachable from the old value'],
    explanation='Model decoder is a total structurally-recursive function with outcomes ok/err; theorems: prefix consumption and 4*alloc <= maxCap*consumed for capped schemas, every registered schema is capped (after the fix: commit); tie: malformed-input differential with outcome classes.',
)

AS_RULE = ('actorsys: the real actor.System under the coarse baton scheduler (a step = one HandleEnvelop of one actor, or one operation from outside), lock-step against the Lean model '
    'after every step (per context: state, paused, zombie, restarting, incarnation, queue lengths, stash ids, children, watchers; registry; dead letters; the events of the step: what each behaviour saw, '
    'failures, decisions, spawns and spawn errors, restarts, zombies, termination events). Scenarios: (1) supervision matrix — every decision (incl. decision lists with escalation) x {one-for-one, one-for-all} x '
    'failure site {OnLaunch, user message, child OnKilled} x restart hooks {none, provider, Prelaunch fails, Restarted fails}, with a burst of mail queued behind the failing message and probes after quiescence; '
    '(2) seeded random rule tables (tell / spawn / kill / poison / panic / stash / unstash / watch / become) over 3 names and 4 scripts with external spawn / tell (own, fresh-path and long-lived parsed refs) / kill, '
    'random delivery order, drained to quiescence. Every case is a distinct scenario+schedule.')
AS_TRUST = COMMON_TRUST + ['coarse baton: a handler execution is atomic (justified by C01: one handler at a time per mailbox) — interleavings inside a handler between different actors are not explored here',
                           'scripted behaviours (rule tables) stand for arbitrary user code; log records captured through the Logger interface are the event observations']
AS_ASSUME = ['mailbox policy (system first, user only when not paused, one handler at a time) is C01/C02', 'ask/futures, scheduler and event stream are outside this model (C04, C20, C19)']

for _pid, _only, _must in [
    ('C03', r'LOST-USER-MESSAGE|AFTER-STOP|ended twice|PANIC|LOST WAKE-UP|FATAL', ['ev:dead-letter', 'stash:dec1:hooks0', 'stash:dec1:hooks1', 'stash:dec2', 'stash:dec3', 'stash:dec5', 'stash:deck']),
    ('C05', r'LIFECYCLE|LAUNCH-TWICE|RESTART-NO-LAUNCH|STALE-INSTANCE|PANIC|FATAL', ['ev:restarted', 'ev:zombie', 'ev:spawn-err:prelaunch']),
    ('C06', r'KILL-ONCE|CHILDREN-FIRST|NOT-RELEASED|HALF-STOPPED|JOB-SURVIVES-OWNER|PANIC|FATAL', ['ev:killed-event', 'ev:spawn-err:exists', 'ev:spawn-err:dead', 'killvs:kill-first', 'killvs:directive-first', 'killvs:dec1:kill-first', 'killvs:dec1:directive-first', 'killvs:dec2:directive-first']),
    ('C08', r'DECIDE-TWICE|SUPERVISION-WHILE-STOPPING|STAYS-PAUSED|HALF-STOPPED|STALE-INSTANCE|PANIC|FATAL', ['stash:dec1:hooks1', 'stash:dec2:hooks1', 'ev:decide:1', 'ev:decide:2', 'ev:decide:3', 'ev:decide:4', 'ev:decide:5', 'ev:decide:6', 'matrix:', 'escal:kindM1:depth1', 'escal:kindM2:depth1', 'escal:kindM2:depth2']),
    ('C09', r'STAYS-PAUSED|HALF-STOPPED|NO-ANSWER|ZOMBIE-RUNS-USER-CODE|ZOMBIE-PAUSED|PANIC|FATAL', ['ev:restarted', 'ev:zombie', 'ev:decide:5', 'ev:decide:2', 'ev:decide:4', 'escal:kindM1:depth1', 'escal:kindM2:depth1', 'escal:kindM2:depth2', 'escal:dec5', 'escal:dec4', 'escal:dec2', 'escal:dec7', 'escal:dec0', 'stash:dec7:hooks0', 'killvs:kill-first', 'killvs:directive-first', 'killvs:dec1:kill-first', 'killvs:dec1:directive-first', 'killvs:dec2:directive-first', 'stash:dec1:hooks8', 'stash:dec1:hooks32', 'stopping-supervisor:dec6:poison1', 'stopping-supervisor:dec1:poison1', 'stopping-supervisor:dec6:poison0', 'zombie-sibling:dec1', 'zombie-sibling:dec3', 'zombie-sibling:dec5', 'zombie-sibling:dec6']),
    ('C19', r'ES-TABLES|EVENT-TWICE|EVENT-NOT-SUBSCRIBED|EVENT-MISSED|PANIC|FATAL', ['ev:es-sub', 'ev:es-unsub', 'ev:es-unsuball', 'ev:es-pub-with-subscribers']),
]:
    PROPS[_pid] = dict(
        modules=['Vivid.Props.' + _pid],
        gens=[],
        engines=[dict(name='actorsys', only=_only, must_hit=_must)],
        rule=AS_RULE, trusted_base=AS_TRUST, assumptions=AS_ASSUME,
        explanation='Executable model of the actor runtime at handler granularity with scripted behaviours; invariants proved over every reachable state (all trees, all rule tables, all schedules of handler steps and outside operations); lock-step ties the model to the real system.',
    )

# C06 also owns the kill-order probe: scheduling points inside the termination clean-up
PROPS['C06']['modules'] = ['Vivid.Props.C06', 'Vivid.Props.C06Global', 'Vivid.Props.M10Global']
PROPS['C05']['modules'] = ['Vivid.Props.C05', 'Vivid.Props.M10Global']
# C05 also owns the launch-order probe: the enqueue of a system message as a scheduling point while actors are spawned
PROPS['C05']['engines'].append(dict(name='launchorder', nomodel=True, must_hit=['variant:0', 'variant:2', 'variant:5', 'variant:7']))
PROPS['C19']['modules'] = ['Vivid.Props.C19', 'Vivid.Props.C19C20Global']
PROPS['C09']['modules'] = ['Vivid.Props.C09', 'Vivid.Props.C09Global', 'Vivid.Props.C09Graceful']
PROPS['C08']['modules'] = ['Vivid.Props.C08', 'Vivid.Props.C08Frame']
PROPS['C03']['modules'] = ['Vivid.Props.C03', 'Vivid.Props.C03Global', 'Vivid.Props.C03Exact', 'Vivid.Props.C09Global']
PROPS['C06']['engines'].append(dict(name='killorder', nomodel=True, only=r'NOT-RELEASED|CHILDREN-FIRST|HARNESS|PANIC|FATAL', must_hit=['variant:0', 'variant:3', 'variant:7', 'variant:15']))
# C19 shares the kill-order probe: subscriptions of a re-created namesake while the dead instance is still cleaning up
PROPS['C19']['engines'].append(dict(name='killorder', nomodel=True, only=r'SUBSCRIPTION-LOST|SUBSCRIPTION-LEFT|HARNESS|PANIC|FATAL', must_hit=['variant:0', 'variant:3', 'variant:7', 'variant:15']))
# ... and a real-time probe of the ordering clause with large fan-outs (real goroutines, no model)
PROPS['C19']['rule'] = PROPS['C19'].get('rule', AS_RULE) + (' esrt (monitor only, real system): 3 / 8 / 9 / 12 / 40 subscribers of one type, one or two publishers publishing 100-300 events back to back from one handler: '
                                  'every subscriber receives every publisher\'s events exactly once and in publication order.')
PROPS['C19']['engines'].append(dict(name='esrt', nomodel=True, must_hit=['es:3-subscribers', 'es:9-subscribers', 'es:12-subscribers', 'es:40-subscribers']))
PROPS['C06']['rule'] = AS_RULE + (' killorder (monitor only): parent + fixed-name child (optionally with a grandchild, a watcher, poison, two ActorKilledEvent subscribers) under the baton with extra scheduling points after each '
                                  'notification group of the termination clean-up (yield sites kh.*), seeded random schedules (12 / thorough 200 per variant x 16 variants): whenever a parent or watcher observes OnKilled{X}, '
                                  'that very actor X and all its doomed descendants are already unregistered and the parent can re-create the child under the same name.')
PROPS['C06']['trusted_base'] = AS_TRUST + ['placement of the kh.* yield sites (after the watcher / parent / event notifications, where no lock is held)']

PROPS['C20'] = dict(
    modules=['Vivid.Props.C20', 'Vivid.Props.C19C20Global'],
    gens=[],
    engines=[dict(name='actorsys', only=r'JOB-SURVIVES-OWNER|JOB-KEY-COLLISION|CANCEL-UNKNOWN|PANIC|FATAL', must_hit=['ev:sched-once', 'ev:sched-loop', 'ev:cancel:ok', 'ev:cancel:notfound', 'ev:sched-clear', 'ev:cron-invalid', 'sched-scenario', 'sched-owner:running:kill', 'sched-owner:kill:kill', 'sched-owner:okilled:poison', 'sched-owner:killed:fail-stop', 'sched-owner:okilled:fail-restart']),
             dict(name='schedrt', nomodel=True, must_hit=['rt:once', 'rt:loop-cancel', 'rt:owner-restarted', 'rt:owner-killed', 'rt:fired-then-clear', 'rt:fired-then-killed', 'rt:fired-then-restarted', 'rt:through-mailbox', 'rt:foreign-same-reference', 'rt:foreign-same-reference-killed'])],
    rule=AS_RULE + ' Scheduler scenarios: Once / Loop / Cron(valid|invalid) / Cancel / Clear with shared and reused references, references and actor names containing ":", kills and supervised restarts in between (delays of an hour: registries compared, nothing fires). '
         'schedrt: seven real-time scenarios against go-quartz with a 40 ms unit and one-sided assertions (Once exactly once and not early, Loop stops after Cancel, nothing after Cancel / owner kill / owner restart, no dead letters, unknown Cancel, invalid cron), a failure is re-run twice in isolation before it is reported.',
    trusted_base=AS_TRUST + ['go-quartz (job queue, triggers, cron parser, 100 ms outdated threshold) and the wall clock: observed, not modelled beyond a keyed job table'],
    assumptions=AS_ASSUME[:1] + ['firing times are runtime behaviour: partial — the registry logic is proved/tied, firing is monitored'],
    explanation='Job key injective in (path, reference); Clear/termination/restart remove exactly the actor\'s jobs; duplicate reference keeps one job; registries tied by lock-step; firing by a real-time monitor.',
)

PROPS['C07'] = dict(
    modules=['Vivid.Props.C07'],
    gens=[],
    engines=[dict(name='sysfsm', must_hit=['ret:ok', 'ret:already-started', 'ret:already-stopped', 'ret:not-started', 'conc', 'census', 'slowstop', 'busystop', 'selfstop', 'zerostop', 'cancel-before-start'])],
    rule='sysfsm: real actor.System instances with real goroutines. (1) every sequential history of <= 3 (thorough 4) calls from {Start, Stop, cancel the context}: return value and status compared with the model after each call, '
         'each call under a 1.5 s watchdog (BLOCKED / LOCKED are observations); (2) every pair of calls released concurrently after the prefixes [], [Start], [Start, Stop], repeated: every call must return, at most one Start / one Stop returns nil; '
         '(3) goroutine census (frames under vivid / go-quartz) after a Start/Stop cycle. Non-trivial = every case; distinct = distinct call lists.',
    exhaustive=True,
    trusted_base=COMMON_TRUST + ['wall-clock watchdog (1.5 s) as the definition of "hangs"; runtime.Stack census as the goroutine observation'],
    assumptions=['concurrent histories linearise at statusLock; remoting/cluster disabled in the engine (their shutdown is covered by C11/C14 engines only as far as they stop)',
                 'partial: "never hangs", "within its timeout", "no goroutine left" are runtime facts observed, not proved'],
    explanation='The FSM spec is the model; theorems: one-way status along every history, Start/Stop succeed at most once, answers after stop, cancel = stop; tie: exhaustive sequential histories + concurrent pairs + census on the real system.',
)

FUT_T = "k0>exit k0>k1 k1>k2 k2>k3 k3>k4 k4>k5 k5>exit p0>exit p0>p1w p1w>p1 p1>exit w0>exit".split()
PROPS['C04'] = dict(
    modules=['Vivid.Props.C04'],
    gens=[],
    engines=[dict(name='future', must_hit=['t:' + t for t in FUT_T] + ['variant:fixed']),
             dict(name='askrt', nomodel=True, must_hit=['ask:result-window', 'ask:wait-window', 'ask:reply', 'ask:timeout', 'ask:late-reply', 'ask:close', 'ask:asker-dies-1-0', 'ask:asker-dies-3-0', 'ask:asker-dies-1-1', 'ask:asker-dies-1-3', 'ask:asker-dies-2-3', 'ask:asker-dies-3-1', 'ask:asker-restarts', 'ask:asker-dies-racing'])],
    rule='askrt (monitor only, real system, real time; a failure is re-run twice before it is reported): Ask answered / timed out / answered late / closed by the caller / asker killed with 1, 3 and 2-of-5 Asks outstanding / asker stopped by its supervisor / asker killed while half of 3000 outstanding Asks are being answered from another goroutine: own reply, prompt actor-dead error, outcome never changes afterwards, nothing left in the future registry. '
         'future: the real future.Future under the fine baton (every statement of close() and PipeTo and the blocking receive of Result are scheduling points). Thread sets of completers (reply / error / timeout-Close), '
         'PipeTo callers (one forwarder each) and Result waiters: the finding\'s own replay, exhaustive DFS over six small sets (budgeted), seeded random schedules of 2-7 threads; after every step closed / done / registered forwarders / '
         'forwarders told (final vs unwritten result) / closer runs / program point of every goroutine are compared with the model. Every case is a distinct schedule.',
    trusted_base=COMMON_TRUST + ['baton scheduler + yield placement in future.go', 'the forwarder mutex section of PipeTo/close is atomic (sync.Mutex)'],
    assumptions=['one future at a time; the ask-level registry (appendFuture / removeFuture / asker death / timers) is observed through the closer callback count only — timer-vs-registration and asker-death are not modelled (partial)',
                 'reply routing by uuid-fresh agent path is assumed (uuid uniqueness)'],
    explanation='Inductive invariant over a counter-abstracted LTS of close/PipeTo/Result with unboundedly many threads: one CAS winner, closer once, done implies written, forwarder conservation; at quiescence every forwarder told the final result exactly once (repaired PipeTo) and a 4-step witness for the code as found.',
)

FRAME_HITS = ['coalesced', 'split-1', 'byte-by-byte', 'split-random', 'cut', 'undecodable', 'close-frame', 'invalid-length', 'large', 'large:at-limit']
PROPS['C11'] = dict(
    modules=['Vivid.Props.C11'],
    gens=[],
    engines=[dict(name='framing', must_hit=FRAME_HITS + ['burst', 'burst:first-concurrent'])],
    rule='framing: (rx) a real tcpConnectionActor spawned in a real system reads from a net.Pipe whose writer delivers a byte stream in exactly the chunks given — every frame boundary pattern: all frames in one read, '
         'one byte per read, every 2-split of short streams, seeded random splits, payloads up to just under 4 MiB — and the decoded envelopes / decode failures / invalid lengths / fatal reads are compared, in order, with the model receiver; '
         '(burst) two real systems over loopback TCP, 1-4 concurrent senders x 200-5000 messages (pad 0-2 KiB): per-sender order, exactly once, intact payload, sender reference (monitor only). Non-trivial = every case.',
    trusted_base=COMMON_TRUST + ['net.Pipe as the model of a TCP byte stream delivering arbitrary read boundaries', 'the fake envelope handler / logger capture used to observe deliveries'],
    assumptions=['partial: the sender side of a healthy link (one connection per address under connectionLock, whole-frame writes) is observed by the loopback bursts, not proved; Ask/Reply routing over the link is covered by C15\'s engine',
                 'the 10 s handshake deadlines that are never cleared make an idle link reconnect; with default options no message is lost (soak case), so it is reported in DESIGN.md only'],
    explanation='Receiver = fold over length-prefixed frames with io.ReadFull semantics; theorems: any chunking of frame(p1)++..++frame(pn) yields exactly p1..pn in order (reassembly, chunking independence). Tie: lock-step with the real connection actor over controlled read boundaries + loopback bursts.',
)

PROPS['C14'] = dict(
    modules=['Vivid.Props.C14', 'Vivid.Props.C14SendLoop', 'Vivid.Props.C14EndToEnd'],
    gens=[],
    engines=[dict(name='framing', must_hit=['cut', 'undecodable', 'invalid-length']),
             dict(name='sendloop', must_hit=['op:break', 'op:fin', 'op:down', 'op:up', 'limit:0', 'limit:1', 'limit:2']),
             dict(name='remote', nomodel=True, must_hit=['rm:refused', 'rm:recover', 'rm:cut-mid', 'rm:cut-prefix', 'rm:cut-mid-limit0', 'rm:stall', 'rm:flood-limit0', 'rm:flood'])],
    rule='framing: streams cut after every byte offset (inside a prefix, inside a body, between frames), frames with invalid length or undecodable payload: events compared with the model receiver. '
         'sendloop: the real Mailbox.Enqueue / ExponentialBackoff.Try in a real system against a harness-owned peer that accepts, refuses (down), resets the connection (break) and returns (up): per Tell sent/dead, and at the end '
         'the peer\'s received sequence, the dead letters and the number of accepted connections, compared with the model for budgets 0..2. remote (monitor only): refused peer -> exactly one dead letter per message, Tell latency; '
         'recovery; connection reset inside a prefix / a body -> received is a duplicate-free in-order subsequence, nothing both delivered and dead, tail delivered.',
    trusted_base=COMMON_TRUST + ['net.Pipe / loopback TCP with SO_LINGER 0 resets as the fault injector', 'wall-clock waits (<= 300 ms) to decide "dead-lettered" vs "received"'],
    assumptions=['faults modelled: refused dial, connection reset (the next write fails) and orderly close by the peer (the reader marks the connection closed)',
                 'partial: "Tell returns promptly" is a runtime fact; the code as found violates it (KNOWN-FINDING TELL-BLOCKS), measured by the remote engine'],
    explanation='Receiver: a stream cut at any byte yields a prefix of the sent frames, garbage frames are skipped (C14_cut_prefix, C14_resync). Sender: dead letter iff all limit+1 attempts fail (closed form), recovery with budget >= 1, one fault costs at most one message, delivered/dead are an order-preserving partition of the sent sequence (C14_partition).',
)

def access_report(pid, tier, seed, info):
    """C10: name the unprotected conflicting accesses of the regenerated table (empty when race free)."""
    import subprocess, os
    lean = os.path.join(os.path.dirname(os.path.abspath(__file__)), 'lean')
    p = subprocess.run(['lake', 'env', 'lean', '--run', 'Vivid/Tools/AccessReport.lean'], cwd=lean, stdout=subprocess.PIPE, stderr=subprocess.STDOUT, timeout=600)
    out = p.stdout.decode(errors='replace')
    lines = [l for l in out.split('\n') if l.startswith('UNPROTECTED: ')]
    info['access_report'] = out[-1500:]
    res = [('proof', 'access table: ' + l, {}) for l in lines[:6]]
    if p.returncode != 0 and not lines:
        res.append(('tie', 'access report failed: ' + out[-600:], {}))
    return res


PROPS['C10'] = dict(
    modules=['Vivid.Props.C10'],
    gens=['access'],
    race=True,
    engines=[dict(name='conc', nomodel=True, must_hit=['scenario:spawn-die', 'scenario:spawn-kill', 'scenario:spawn-fail', 'scenario:ask', 'scenario:es', 'scenario:ref', 'scenario:respawn', 'scenario:ask-die'])],
    extra_steps=[access_report],
    rule='Proof side: the access table (every read/write of a struct field in internal/actor and internal/future reachable from the documented-concurrent entry points or from the message handler, with the locks lexically held, '
         'atomic operations, publication idioms CAS-winner / close(done) / <-done as pseudo-locks, goroutine role) is regenerated from the source by harness/access (go/ast) and the lockset discipline is decided on the whole table by the kernel. '
         'conc (monitor only, race-detector build, one child process per scenario, 8 goroutines x 300 (thorough 3000) iterations): System.ActorOf against children dying / being killed / failing, Tell/Ask/Kill/FindActor, futures from several goroutines, '
         'event-stream Subscribe/Publish/Unsubscribe from outside and inside actors, one shared ActorRef while its target is re-created: a fatal runtime error, a race report in vivid code, or an inconsistent tree / leak at quiescence is a violation.',
    trusted_base=COMMON_TRUST + ['the extractor harness/access (syntactic: go/ast + local type inference; calls through interfaces and user callbacks are thread boundaries it does not follow; closures run synchronously unless go / time.AfterFunc)',
                                 'the entry-point list (the concurrent API named by C10; other exported Context methods are handler-only) and the role rule: handler accesses of one actor are serialised by the mailbox token (C01)',
                                 'Go memory model facts used as lock semantics: sync.Mutex/RWMutex exclusion, uniqueness of a CompareAndSwap(false,true) winner, close(ch) happens-before a receive that observes it',
                                 'Go race detector and runtime map-race check as the oracles of the stress engine'],
    assumptions=['instance-insensitive: all objects of one struct type share a row set (sound, may over-report)', 'Start/Stop are not in C10\'s API list: their accesses have role lifecycle and conflict with nothing',
                 'partial: "no crash" beyond data races and "tree consistency" are observed by the stress engine at quiescence, not proved; fields of sync/atomic/chan types are self-synchronised and omitted'],
    explanation='Lockset theorem over an acquire/release LTS (mutual exclusion invariant by induction) + kernel-decided discipline on the table regenerated from the source; the stress engine under the race detector is the search for a failing schedule.',
)

PROPS['C15'] = dict(
    modules=['Vivid.Props.C15', 'Vivid.Tie.Registry'],
    gens=['registry'],
    engines=[dict(name='transp', must_hit=['op:tell', 'op:tellv', 'op:ask', 'op:kill', 'op:poison', 'op:watch', 'op:unwatch', 'op:watch-twin', 'op:unwatch-twin', 'op:ping', 'op:pipe-ok', 'op:pipe-fail', 'op:pipe-err', 'op:kill-busy', 'op:poison-busy', 'op:watch-stopping', 'op:tell-respawned', 'loc:remote', 'cfg:codec', 'cfg:registered'])],
    rule='transp: two real systems over loopback TCP, once with a user Codec and once with RegisterCustomMessage; every ActorRef-taking operation (Tell of a pointer and of a value message, Ask/Reply, Kill graceful and poison, Watch, Unwatch, Ping, '
         'PipeTo with success and with failure results x local/remote forwarder) is executed from inside an actor against a local and against a remote target. Observation: the effects seen by the actors involved (messages with sender role, OnKill fields, '
         'termination, OnKilled.Ref, Pong, PipeResult content; references are rendered by role and checked to carry the address of the system the actor lives on) and the built-in message types the remoting layer reports as sent. Compared with the model, '
         'and local vs remote compared with each other on the implementation alone (monitor TRANSPARENCY). Every case is distinct.',
    exhaustive=True,
    trusted_base=COMMON_TRUST + ['wall-clock settling (250-450 ms per case) before reading the observation', 'ves.RemotingMessageSentEvent as the record of what went over the wire'],
    assumptions=['user payloads (the told/asked message, the reply, the message nested in a PipeResult) cross the wire through the user codec or their registered reader/writer: their round-trip is the user\'s obligation, not modelled',
                 'the validation of (address, path) by actor.NewRef when a reference is rebuilt is not modelled: references that exist in a system are valid by construction',
                 'partial: timing (the reply arrives within the timeout) and C11\'s delivery guarantees are assumed here'],
    explanation='Spec = a location-free effect per operation; model adds the wire table and the transmissibility of each built-in message (schema present + C12 round-trip); theorem: observe = effect for every op x target x forwarder location; as-found witness for remote Kill / Watch.',
)

PROPS['C18'] = dict(
    modules=['Vivid.Props.C18', 'Vivid.Props.C18Converge'],
    gens=[],
    engines=[dict(name='gossip', must_hit=['scenario:join', 'scenario:idle-long', 'scenario:crash', 'scenario:restart', 'scenario:seed-crash', 'scenario:seed-restart', 'scenario:two-seeds',
                                           'scenario:late-crash-messages', 'scenario:partition', 'scenario:partition-suspect', 'scenario:crash-suspect', 'scenario:oneway-suspect', 'scenario:random', 'rand:crash', 'rand:start', 'rand:recv']),
             dict(name='gossiprt', nomodel=True, must_hit=['scenario:idle', 'scenario:crash', 'scenario:restart', 'scenario:seedcrash', 'scenario:seedrestart'])],
    rule='gossip: real cluster.NodeActor instances (2..7 nodes) behind a fake ActorContext; the harness is the network (a bag of captured gossip messages: any may be delivered, late, twice or never), the timers (ticks are ops, any phase) and the clock. '
         'Directed scenarios (join orders, one or two seeds incl. self-seeded islands, long idle, crash, restart on the same address, seed crash / restart, messages of a crashed node arriving late, partitions longer than the timeout then healed) and seeded '
         'random fault phases (start / crash / restart / retry / tick / fd / clock / arbitrary delivery), each followed by a settle phase of full rounds. After every op the node\'s members (id, address, generation, clock, timestamp, status, LastSeen) '
         'are compared with the model; at the end: every running node lists exactly the running incarnations, all Up, same leader (monitor CONVERGENCE); every periodic round addresses every member (monitor HEARTBEAT). '
         'gossiprt (monitor only): real systems over loopback remoting with short timers (3-7 nodes): idle, crash, restart, seed crash, seed restart: exact and stable membership, no membership event in the last third of the run, one leader.',
    trusted_base=COMMON_TRUST + ['the fake ActorContext (Tell captured into the bag, Ask routed synchronously to the one seed the harness lets answer, scheduler and event stream stubbed)', 'the clock hook cluster.VerifNow (wallNow) and VerifSetBirth',
                                 'wall-clock sampling in gossiprt'],
    assumptions=['configuration of the engine: one datacenter, SuspectConfirmDuration 0, fan-out >= cluster size, no join secrets / rate limits; version vectors (only used to suppress change-triggered broadcasts) are not modelled',
                 'two incarnations of one node never share a birth timestamp',
                 'partial: the positive half of convergence (running nodes end with equal views under every fair schedule) is observed over the explored schedules, not proved; proved: heartbeat refresh, failure detection is exact and quiet on fresh views, '
                 'no re-adoption of stale hearsay, a crashed node stays absent along every execution, leader is a function of the Up-address set'],
    explanation='Handler-level model of handleGossip / failure detection / join / incarnation supersession, lock-step with the real NodeActor; network LTS with arbitrary delivery: invariant Gone(c,B) preserved by every step, hence a crashed incarnation never returns to a view that dropped it after B+T.',
)

# Text of level_claimed per property (MANIFEST); NOT_APPLICABLE: properties not claimed, with reason.
LEVEL_TEXT = {}
NOT_APPLICABLE = {}
