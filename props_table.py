"""Per-property configuration of ./check: which Lean modules carry the obligations, which
translators regenerate their inputs, which harness engines tie the model to /repo."""

COMMON_TRUST = [
    'translators.py + `vh consts` (runtime dump of constants from the harness built against /repo)',
    'Go harness engines + canonicalisers (harness/engines), Lean driver engines (lean/Vivid/Engine)',
    'Go runtime, sync/atomic, sync.Mutex, channels: documented contracts, not verified',
]

PROPS = {}

PROPS['C16'] = dict(
    modules=['Vivid.Props.C16', 'Vivid.Tie.VVConstants'],
    gens=['constants'],
    engines=[dict(name='vv', must_hit=['cmp:equal', 'cmp:before', 'cmp:after', 'cmp:concurrent', 'err:overflow', 'err:invalid', 'prune:truncated'])],
    rule='vv: every pair of vectors over <=3 keys x {absent,0,1,2,max-1,max} (exhaustive: compare+merge), every increment on each of them x '
         '{present, absent, empty, 256- and 257-byte names}, then seeded random vectors over 12 names incl. prune with random limits; '
         'a case is non-trivial when both operands are non-empty and differ (pairs) or is an increment/prune; distinct = distinct op-line lists',
    exhaustive=True,
    trusted_base=COMMON_TRUST + ['Go map[string]uint64 modelled as an association list with distinct keys (WF); uint64 counters as Nat (no operation but Increment adds, and it guards at 2^63-1)'],
    assumptions=['map iteration order is arbitrary: theorems hold for every list order (results are functions of `get`)',
                 'serialisation of vectors is covered under C12 (codec engine)'],
    explanation='Theorems: Compare decides the component-wise order (hence partial order laws), Merge is the join, Increment is strictly After; '
                'tie: differential test of Compare/Merge/Increment/Compact/PruneWithMax against the model + independent oracle on the Go results + operand-immutability check.',
)
